#!/bin/sh
# Run quick checks against a scratch copy of /repo with a seeded patch applied
# (leaves /repo untouched, so several can run side by side).  The framework is
# copied too, so that editing /verif/simqb while this runs does not disturb it.
#   usage: try_seeded.sh <patch.diff> <prop> [<prop> ...]
set -u
P=$1; shift
T=$(mktemp -d /tmp/try-XXXXXX)
mkdir "$T/repo" "$T/verif"
(cd /repo && git archive HEAD) | tar -x -C "$T/repo"
(cd "$T/repo" && patch -p1 -s < "$P") || { echo "PATCH DOES NOT APPLY"; rm -rf "$T"; exit 3; }
cp -r /verif/simqb "$T/verif/simqb"
cp /verif/known_findings.json "$T/verif/"
cd "$T/verif" || exit 2
for prop in "$@"; do
  SIMQB_REPO="$T/repo" SIMQB_EVIDENCE_DIR="$T/ev" SIMQB_REPLAY_DIR="$T/rp" \
    timeout 1500 /venv/bin/python -m simqb check "$prop" --tier quick > "$T/out.$prop" 2>&1
  rc=$?
  grep -v "^  class" "$T/out.$prop" | tail -3 | cut -c1-300
  grep "^  class" "$T/out.$prop" | cut -c1-260 | head -6
  echo "exit($prop)=$rc"
done
cd /
rm -rf "$T"
