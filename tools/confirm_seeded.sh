#!/bin/sh
# Confirm a candidate seeded change in a scratch worktree of /repo:
#   usage: confirm_seeded.sh <dir with patch.diff and demo.py>
# 1. demo passes on clean HEAD  2. patch applies  3. test suite passes with it
# 4. demo fails with it.   The worktree is removed afterwards.
set -u
D=$1
W=$(mktemp -d /tmp/confirm-XXXXXX)
git -C /repo worktree add -q --detach "$W/wt" HEAD || exit 2
cd "$W/wt" || exit 2
/venv/bin/python "$D/demo.py" >/dev/null 2>&1; A=$?
git apply "$D/patch.diff" || { echo "PATCH DOES NOT APPLY"; cd /; git -C /repo worktree remove --force "$W/wt"; rm -rf "$W"; exit 3; }
/venv/bin/python "$D/demo.py" > "$W/demo.out" 2>&1; B=$?
T=$(timeout 3000 /venv/bin/python -m pytest -q -p no:cacheprovider -n 8 2>&1 | tail -1)
echo "demo clean exit=$A  demo mutated exit=$B  tests: $T"
tail -3 "$W/demo.out"
cd /; git -C /repo worktree remove --force "$W/wt"; rm -rf "$W"
