#!/bin/sh
# Apply a seeded patch to /repo, run the given checks (quick), undo.
#   usage: run_on_seeded.sh <patch.diff> <prop> [<prop> ...]
set -u
P=$1; shift
cd /verif || exit 2
git -C /repo diff --quiet || { echo "/repo is dirty"; exit 2; }
git -C /repo apply "$P" || exit 3
for prop in "$@"; do
  SIMQB_EVIDENCE_DIR=/tmp/seeded-ev SIMQB_REPLAY_DIR=/tmp/seeded-rp \
    timeout 1500 /venv/bin/python -m simqb check "$prop" --tier quick 2>&1 | grep -v "^  class" | tail -4
  echo "exit($prop)=$?"
done
git -C /repo checkout -- .
rm -rf /tmp/seeded-ev
