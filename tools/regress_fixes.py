#!/venv/bin/python
"""For every `fixed:` entry of known_findings.json: reverse the fix commit in
/repo's working tree, run the quick check of the property it was found by,
undo.  Prints one line per fix: caught / missed / patch does not reverse."""
import json, re, subprocess, sys, os
k = json.load(open('/verif/known_findings.json'))
only = sys.argv[1:]
for line in k['fixed']:
    m = re.match(r'fixed: property=(C\d+) ([0-9a-f]{7}) (.*)', line)
    prop, commit, what = m.groups()
    if only and commit not in only and prop not in only:
        continue
    import shutil, tempfile
    tmp = tempfile.mkdtemp(prefix='regress-')
    copy = os.path.join(tmp, 'repo')
    shutil.copytree('/repo', copy, ignore=shutil.ignore_patterns('.git', '__pycache__'))
    patch = subprocess.run(['git', '-C', '/repo', 'diff', commit, commit + '~1'], stdout=subprocess.PIPE).stdout
    p = subprocess.run(['patch', '-p1', '-s'], cwd=copy, input=patch, stdout=subprocess.PIPE, stderr=subprocess.STDOUT)
    if p.returncode != 0:
        print(f'{commit} {prop}: reverse patch does not apply (later commits touch the same lines)')
        shutil.rmtree(tmp, ignore_errors=True)
        continue
    try:
        env = dict(os.environ, SIMQB_EVIDENCE_DIR=os.path.join(tmp, 'ev'), SIMQB_REPLAY_DIR=os.path.join(tmp, 'rp'),
                   SIMQB_REPO=copy)
        q = subprocess.run(['/venv/bin/python', '-m', 'simqb', 'check', prop, '--tier', 'quick'], cwd='/verif',
                           env=env, stdout=subprocess.PIPE, stderr=subprocess.STDOUT, timeout=3000)
        out = q.stdout.decode()
        classes = sorted(set(re.findall(r'class=(\S+)', out)))
        print(f'{commit} {prop}: exit={q.returncode} {"CAUGHT" if q.returncode == 1 else "MISSED"} {classes[:4]} :: {what[:70]}', flush=True)
    finally:
        shutil.rmtree(tmp, ignore_errors=True)
