"""Scenario construction shared by the property checks: workload (generated or
corpus program), compiler configuration, device script."""
import random

from .core import H, stream, corpus, compile_source, digest
from .gen import draw_profile, gen_program, gen_script
from .qast import to_text
from .world import default_script

CONFIGS = [(o, g) for o in (0, 1, 2) for g in (False, True)]


def corpus_scenario(r, idx=None):
    cs = [c for c in corpus() if not c['no_run']]
    c = cs[idx % len(cs)] if idx is not None else r.choice(cs)
    s = default_script()
    s['inkey'] = list(c['inkey'])
    if c['rnd']:
        s['rnd'] = list(c['rnd'])
    if c['timer']:
        # the corpus scripts absolute TIMER readings: clock0 + zero deltas
        s['clock0'] = float(c['timer'][0])
        s['deltas'] = [0.0]
    return {'source': 'corpus:%s:%s' % (c['file'], c['idx']), 'text': c['src'],
            'ast': None, 'script': s, 'meta': {}}


def generated_scenario(seed, family=None, **force):
    rp = stream(seed, 'program')
    rd = stream(seed, 'devices')
    if family is None:
        family = 'any' if rp.random() < 0.5 else 'ref'
    prof = draw_profile(rp, family, **force)
    prog, meta = gen_program(rp, prof)
    text, pr = to_text(prog, final_newline=prof['final_newline'])
    meta['pos'] = {str(k): v for k, v in pr.pos.items() if k is not None}
    return {'source': 'gen:%s' % family, 'text': text, 'ast': prog,
            'script': gen_script(rd, meta, prof), 'meta': meta,
            'profile': {k: v for k, v in prof.items()}}


def pick_config(r, need_dbg=None):
    opt = r.choice((0, 1, 2))
    dbg = r.random() < 0.5 if need_dbg is None else need_dbg
    return opt, dbg


def text_digest(text, *more):
    return digest([text] + list(more))
