"""CLI:  python -m simqb check <Cxx> [--tier quick|thorough]
         python -m simqb replay <file>
         python -m simqb selftest determinism|sensitivity"""
import os
import sys


def _reexec_fixed_hashseed():
    # the simulator never depends on str hashing, but pin it anyway so that a
    # forgotten set iteration cannot make two runs of one seed differ
    if os.environ.get('PYTHONHASHSEED') != '0' and not os.environ.get('SIMQB_KEEP_HASHSEED'):
        env = dict(os.environ)
        env['PYTHONHASHSEED'] = '0'
        os.execve(sys.executable, [sys.executable, '-m', 'simqb'] + sys.argv[1:], env)


def main(argv):
    _reexec_fixed_hashseed()
    from . import registry
    if len(argv) < 1:
        print(__doc__)
        return 2
    cmd = argv[0]
    try:
        if cmd == 'check':
            prop = argv[1]
            tier = os.environ.get('VERIF_TIER') or 'quick'
            if '--tier' in argv:
                tier = argv[argv.index('--tier') + 1]
            return registry.check(prop, tier)
        if cmd == 'replay':
            return registry.replay_file(argv[1])
        if cmd == 'selftest':
            from . import selftest
            return selftest.main(argv[1:])
    except SystemExit:
        raise
    except BaseException:
        import traceback
        traceback.print_exc()
        print('harness error; no verdict')
        return 2
    print(__doc__)
    return 2


if __name__ == '__main__':
    sys.exit(main(sys.argv[1:]))
