"""simqb - deterministic simulation with fault injection for elektito/qbee.

See /verif/DESIGN.md.  Everything here runs the *real* compiler, VM, devices
and debugger from the repository working tree (SIMQB_REPO, default /repo) in
one process under a seeded scheduler: simulated peripherals, a per-instance
tick wrapper, scripted operator commands and controlled process environments.
"""
