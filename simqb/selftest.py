"""Trust in the simulator itself.

determinism  - N scenario seeds per property, each executed in fresh
               interpreters under two hash seeds and once more inside a forked
               pool worker; the packed results (event counts, digests of the
               non-trivial cases, violations, distinct states) must be
               identical.
sensitivity  - the seeded changes kept under /verif/seeded are applied to a
               scratch copy of the repository (mkdtemp, removed afterwards);
               the corresponding check must report a violation on the copy.
"""
import os
import sys
import json
import shutil
import tempfile
import subprocess

from .core import VERIF, REPO, H, digest, pmap, master_seed
from . import registry


def _pack_digest(prop, params):
    mod = __import__('simqb.props.' + registry.CHECKS[prop]['mod'], fromlist=['x'])
    res = mod.run_params(params).pack()
    res.pop('sample', None)
    return digest(res)


def _one(args):
    prop, params = args
    return _pack_digest(prop, params)


def _child(prop, params, hashseed):
    env = dict(os.environ)
    env['PYTHONHASHSEED'] = str(hashseed)
    env['SIMQB_KEEP_HASHSEED'] = '1'
    code = ('import sys, json; sys.path.insert(0, %r); '
            'from simqb import selftest; '
            'print(selftest._pack_digest(%r, json.loads(sys.stdin.read())))' % (VERIF, prop))
    p = subprocess.run([sys.executable, '-c', code], input=json.dumps(params).encode(),
                       stdout=subprocess.PIPE, stderr=subprocess.PIPE, env=env, cwd=VERIF,
                       timeout=900)
    if p.returncode != 0:
        raise RuntimeError(p.stderr.decode()[-1500:])
    return p.stdout.decode().strip().splitlines()[-1]


def _child_job(a):
    return _child(*a)


def determinism(n=4, props=None):
    seed = master_seed()
    props = props or sorted(registry.CHECKS)
    bad = 0
    total = 0
    for prop in props:
        mod = __import__('simqb.props.' + registry.CHECKS[prop]['mod'], fromlist=['x'])
        params = mod.make_params(seed, 'quick', 0)[:n]
        jobs = []
        for p in params:
            jobs.append((prop, p, 0))
            jobs.append((prop, p, 12345))
        outs = pmap(_child_job, jobs, chunk=1)
        pool = pmap(_one, [(prop, p) for p in params], chunk=1)
        for i, p in enumerate(params):
            a, b, c = outs[2 * i], outs[2 * i + 1], pool[i]
            total += 1
            if not (a == b == c):
                bad += 1
                print(f'NONDETERMINISTIC {prop} seed={p["seed"]}: hashseed0={a} hashseed12345={b} pool={c}')
        print(f'{prop}: {len(params)} scenario seeds x 3 executions compared')
    print(f'determinism self-test: {total - bad}/{total} identical')
    return 1 if bad else 0


def sensitivity(only=None):
    sdir = os.path.join(VERIF, 'seeded')
    ids = sorted(d for d in os.listdir(sdir) if os.path.isdir(os.path.join(sdir, d)))
    if only:
        ids = [i for i in ids if i in only]
    missed = []
    for sid in ids:
        meta = json.load(open(os.path.join(sdir, sid, 'meta.json')))
        tmp = tempfile.mkdtemp(prefix='simqb-sens-')
        try:
            copy = os.path.join(tmp, 'repo')
            shutil.copytree(REPO, copy, ignore=shutil.ignore_patterns('.git', '__pycache__', '*.pyc'))
            p = subprocess.run(['patch', '-p1', '-s', '-i', os.path.join(sdir, sid, 'patch.diff')],
                               cwd=copy, stdout=subprocess.PIPE, stderr=subprocess.STDOUT)
            if p.returncode != 0:
                print(f'{sid}: patch does not apply: {p.stdout.decode()[-300:]}')
                missed.append(sid)
                continue
            caught = []
            for prop in meta.get('caught_by', [meta['property']]):
                env = dict(os.environ)
                env['SIMQB_REPO'] = copy
                env['SIMQB_EVIDENCE_DIR'] = os.path.join(tmp, 'evidence')
                env['SIMQB_REPLAY_DIR'] = os.path.join(tmp, 'replays')
                q = subprocess.run([sys.executable, '-m', 'simqb', 'check', prop, '--tier', 'quick'],
                                   cwd=VERIF, env=env, stdout=subprocess.PIPE, stderr=subprocess.STDOUT,
                                   timeout=3000)
                out = q.stdout.decode()
                if q.returncode == 1 and 'VIOLATION property=' + prop in out:
                    caught.append(prop)
                    break        # one check that reports it is enough
            print(f'{sid}: breaks {meta["property"]}; caught by {caught or "NOTHING"}')
            if not caught:
                missed.append(sid)
        finally:
            shutil.rmtree(tmp, ignore_errors=True)
    print(f'sensitivity self-test: {len(ids) - len(missed)}/{len(ids)} seeded changes detected')
    return 1 if missed else 0


def main(argv):
    if not argv:
        print(__doc__)
        return 2
    if argv[0] == 'determinism':
        n = 4
        props = None
        if '--n' in argv:
            n = int(argv[argv.index('--n') + 1])
        if '--props' in argv:
            props = argv[argv.index('--props') + 1].split(',')
        return determinism(n, props)
    if argv[0] == 'sensitivity':
        return sensitivity(argv[1:] or None)
    print(__doc__)
    return 2
