"""ddmin-style minimisation of a violating scenario (own code).

Candidates: drop faults, delete statements of the program AST (or lines of the
text when there is no AST), unwrap blocks, truncate the device script, drop
operator commands.  A candidate is kept only if replaying it still shows a
violation of the *same class*.  Bounded number of re-executions."""
import copy

from .qast import to_text, all_bodies, sub_bodies, number_stmts

MAX_RUNS = 220


def _retext(scn):
    """Re-print the program after an AST edit; refresh statement positions."""
    if scn.get('ast') is None:
        return scn
    fn = True
    if not scn['text'].endswith('\n'):
        fn = False
    text, pr = to_text(scn['ast'], final_newline=fn)
    scn['text'] = text
    meta = scn.setdefault('meta', {})
    meta['pos'] = {str(k): v for k, v in pr.pos.items() if k is not None}
    return scn


def minimise_scenario(v, replay, max_runs=MAX_RUNS):
    cls = v['cls']
    best = v
    runs = [0]

    def still(scn):
        if runs[0] >= max_runs:
            return None
        runs[0] += 1
        try:
            vs = replay(scn)
        except Exception:
            return None
        for x in vs:
            if x['cls'] == cls:
                return x
        return None

    def attempt(scn):
        nonlocal best
        x = still(scn)
        if x is not None:
            best = x
            return True
        return False

    # 1. faults
    changed = True
    while changed and len(best['scenario'].get('plan') or []) > 1:
        changed = False
        plan = best['scenario']['plan']
        for i in range(len(plan)):
            c = copy.deepcopy(best['scenario'])
            del c['plan'][i]
            if attempt(c):
                changed = True
                break
    # 2. operator commands
    for key in ('operator',):
        ops = best['scenario'].get(key)
        if ops:
            i = len(ops) - 1
            while i >= 0 and runs[0] < max_runs:
                c = copy.deepcopy(best['scenario'])
                del c[key][i]
                attempt(c)
                i -= 1
                i = min(i, len(best['scenario'][key]) - 1)
    # 3. program
    if best['scenario'].get('ast') is not None:
        _min_ast(lambda: best, attempt, runs, max_runs)
    elif best['scenario'].get('text'):
        _min_text(lambda: best, attempt, runs, max_runs)
    # 4. device script
    for key in ('input_lines', 'inkey', 'rnd', 'deltas', 'peek'):
        sc = best['scenario'].get('script') or {}
        if len(sc.get(key) or []) > 1:
            c = copy.deepcopy(best['scenario'])
            c['script'][key] = c['script'][key][:1]
            attempt(c)
    best = dict(best)
    best['minimised'] = {'replays': runs[0]}
    return best


def _min_ast(get, attempt, runs, max_runs):
    progress = True
    while progress and runs[0] < max_runs:
        progress = False
        scn = get()['scenario']
        bodies = all_bodies(scn['ast'])
        # procedures first (whole removal), then statements from the back
        for pi in range(len(scn['ast'].get('procs', [])) - 1, -1, -1):
            c = copy.deepcopy(scn)
            del c['ast']['procs'][pi]
            if attempt(_retext(c)):
                progress = True
                break
        if progress:
            continue
        n_bodies = len(bodies)
        for bi in range(n_bodies - 1, -1, -1):
            body = bodies[bi]
            # try halves, then single statements
            size = len(body)
            chunk = max(size // 2, 1)
            done = False
            while chunk >= 1 and not done and runs[0] < max_runs:
                i = size - chunk
                while i >= 0 and runs[0] < max_runs:
                    c = copy.deepcopy(scn)
                    cb = all_bodies(c['ast'])[bi]
                    del cb[i:i + chunk]
                    if attempt(_retext(c)):
                        progress = True
                        done = True
                        break
                    i -= chunk
                if chunk == 1:
                    break
                chunk //= 2
            if done:
                break
        if progress:
            continue
        # unwrap blocks: replace a block statement by its first body
        for bi in range(n_bodies):
            body = bodies[bi]
            for i, s in enumerate(body):
                subs = sub_bodies(s)
                if subs and s['k'] != 'multi' and runs[0] < max_runs:
                    c = copy.deepcopy(scn)
                    cb = all_bodies(c['ast'])[bi]
                    inner = sub_bodies(cb[i])[0]
                    cb[i:i + 1] = inner
                    if attempt(_retext(c)):
                        progress = True
                        break
            if progress:
                break


def _min_text(get, attempt, runs, max_runs):
    progress = True
    while progress and runs[0] < max_runs:
        progress = False
        scn = get()['scenario']
        lines = scn['text'].split('\n')
        chunk = max(len(lines) // 2, 1)
        while chunk >= 1 and runs[0] < max_runs:
            i = len(lines) - chunk
            hit = False
            while i >= 0 and runs[0] < max_runs:
                cand = lines[:i] + lines[i + chunk:]
                if cand:
                    c = copy.deepcopy(scn)
                    c['text'] = '\n'.join(cand)
                    if attempt(c):
                        progress = True
                        hit = True
                        break
                i -= chunk
            if hit:
                break
            if chunk == 1:
                break
            chunk //= 2
