"""Paths, seeded streams, compilation of the code under test, process pool."""
import os
import sys
import io
import json
import hashlib
import random
import contextlib
import traceback

VERIF = os.path.dirname(os.path.dirname(os.path.abspath(__file__)))
REPO = os.environ.get('SIMQB_REPO', '/repo')
if sys.path[0] != REPO:
    sys.path.insert(0, REPO)

DEFAULT_SEED = 20260923


def _install_arena_shim():
    """Performance only (see native/arena.c): keep CPython's 16 KiB frame
    chunks on a free list instead of mmap/munmap churn, which does not scale
    across processes on this VM.  Absent library -> nothing happens."""
    if os.environ.get('SIMQB_NO_ARENA'):
        return False
    so = os.path.join(VERIF, 'simqb', 'native', 'libarena.so')
    if not os.path.exists(so):
        return False
    try:
        import ctypes
        lib = ctypes.CDLL(so)
        lib.simqb_install()
        return True
    except Exception:
        return False


ARENA_SHIM = _install_arena_shim()

# ---------------------------------------------------------------------------
# one integer decides everything


def H(*parts):
    """Stable 63-bit hash of the parts (never Python's hash())."""
    h = hashlib.sha256(repr(parts).encode()).digest()
    return int.from_bytes(h[:8], 'big') >> 1


def stream(seed, name):
    """Independent named PRNG stream of a run seed."""
    return random.Random(H(seed, name))


def digest(obj):
    return hashlib.sha256(
        json.dumps(obj, sort_keys=True, default=repr).encode()).hexdigest()[:16]


def master_seed():
    v = os.environ.get('VERIF_SEED')
    if v is None or v == '':
        return DEFAULT_SEED
    try:
        return int(v)
    except ValueError:
        return H('seed-text', v)


# ---------------------------------------------------------------------------
# the code under test (imported lazily so that SIMQB_REPO is honoured)

_mods = {}


def qb():
    """Namespace with the repository classes the simulator drives."""
    if not _mods:
        from qbee.compiler import Compiler
        from qbee import qvm_codegen  # noqa: registers the code generator
        from qbee.exceptions import SyntaxError as QSyntaxError, CompileError
        from qvm.module import QModule
        from qvm.machine import QvmMachine
        from qvm.cpu import HaltReason, QvmCpu
        from qvm.trap import TrapCode, Trapped
        from qvm.cell import CellType, CellValue, Reference
        from qvm.exceptions import DeviceError
        from qvm.instrs import op_code_to_instr
        import qvm.machine as machine_mod
        _mods.update(locals())
    return _mods


class CompileOutcome:
    """Result of one compilation: accepted module bytes, a diagnostic, or a
    crash of the compiler (which is itself reportable)."""
    __slots__ = ('status', 'bytes', 'listing', 'exc_type', 'exc_code',
                 'exc_text', 'where')

    def __init__(self, status, **kw):
        self.status = status
        self.bytes = kw.get('bytes')
        self.listing = kw.get('listing')
        self.exc_type = kw.get('exc_type')
        self.exc_code = kw.get('exc_code')
        self.exc_text = kw.get('exc_text')
        self.where = kw.get('where')

    @property
    def ok(self):
        return self.status == 'ok'

    def key(self):
        if self.ok:
            return ('ok',)
        return (self.status, self.exc_type, self.exc_code)

    def __repr__(self):
        if self.ok:
            return f'<compiled {len(self.bytes)} bytes>'
        return f'<{self.status} {self.exc_type} {self.exc_code} {self.exc_text!r} at {self.where}>'


_compile_cache = {}


def compile_source(text, opt=0, dbg=False, listing=False, cache=True):
    """Compile with the real compiler.  Never raises."""
    key = (text, opt, dbg, listing)
    if cache and key in _compile_cache:
        return _compile_cache[key]
    q = qb()
    sink = io.StringIO()
    try:
        with contextlib.redirect_stdout(sink):
            c = q['Compiler'](codegen_name='qvm', optimization_level=opt,
                              debug_info=dbg)
            code = c.compile(text)
            b = bytes(code)
            ls = str(code) if listing else None
        out = CompileOutcome('ok', bytes=b, listing=ls)
    except (q['QSyntaxError'], q['CompileError']) as e:
        out = CompileOutcome(
            'reject', exc_type=type(e).__name__,
            exc_code=getattr(getattr(e, 'code', None), 'name', None),
            exc_text=str(e)[:200])
    except RecursionError as e:
        out = CompileOutcome('crash', exc_type='RecursionError',
                             exc_text='', where='')
    except Exception as e:
        tb = traceback.extract_tb(e.__traceback__)
        where = ''
        for fr in reversed(tb):
            if '/qbee/' in fr.filename or '/qvm/' in fr.filename:
                where = f'{os.path.basename(fr.filename)}:{fr.name}'
                break
        out = CompileOutcome('crash', exc_type=type(e).__name__,
                             exc_text=str(e)[:200], where=where)
    if cache:
        if len(_compile_cache) > 4000:
            _compile_cache.clear()
        _compile_cache[key] = out
    return out


def load_module(b):
    return qb()['QModule'].parse(b)


def split_sections(b):
    """Split module bytes into {section_id: raw bytes} without the loader."""
    import struct
    secs = {}
    idx = 0
    while idx < len(b):
        sid = b[idx]
        n, = struct.unpack('>I', b[idx + 1:idx + 5])
        secs[sid] = b[idx + 5:idx + 5 + n]
        idx += 5 + n
    return secs


# ---------------------------------------------------------------------------
# corpus (the repository's own runnable test programs, snapshotted)

_corpus = None


def corpus():
    global _corpus
    if _corpus is None:
        with open(os.path.join(VERIF, 'simqb', 'corpus.json')) as f:
            _corpus = json.load(f)
    return _corpus


# ---------------------------------------------------------------------------
# pool


def n_workers():
    v = os.environ.get('SIMQB_WORKERS')
    if v:
        return max(1, int(v))
    return min(16, os.cpu_count() or 1)


def pmap(func, items, workers=None, chunk=1):
    """Deterministic-order parallel map over fork()ed workers.

    Results come back in input order; a dead worker or an exception in the
    harness surfaces as an exception here (never as a silent pass)."""
    workers = workers or n_workers()
    items = list(items)
    if workers <= 1 or len(items) <= 1:
        return [func(it) for it in items]
    import multiprocessing as mp
    from concurrent.futures import ProcessPoolExecutor
    ctx = mp.get_context('fork')
    with ProcessPoolExecutor(max_workers=workers, mp_context=ctx) as ex:
        return list(ex.map(func, items, chunksize=chunk))
