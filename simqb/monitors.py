"""Run-time monitors attached through the tick wrapper (C03) and the causal
signatures known findings are matched by.

Invariants (checked between ticks of *every* simulated run they are attached
to, incl. runs with faults, redo loops and error recovery):
  1. no machine-level fault the source language has no notion of
  2. pc is always the start of an instruction
  3. every stored cell has the declared type of its location  (-g only)
  4. at every statement start the operand stack is at the depth recorded when
     the routine's frame was created + one entry per active GOSUB  (-g only)

Causal flags (computed when a trap is dispatched, not by looking at the
program): `hic`  - handler entered while a procedure frame was active;
`residue` - trap dispatched to a handler / RESUME NEXT while operands of the
failing statement were still on the stack."""
from .core import qb

MACHINE_FAULTS = ('TYPE_MISMATCH', 'STACK_EMPTY', 'INVALID_OP_CODE',
                  'INVALID_LOCAL_VAR_IDX', 'INVALID_GLOBAL_VAR_IDX',
                  'NULL_REFERENCE', 'INVALID_DIMENSIONS')


def frame_depth(cpu):
    n = 0
    f = cpu.cur_frame
    while f is not None:
        n += 1
        f = f.prev_frame
    return n


class Monitor:
    def __init__(self, sim, types=True, depth=True):
        self.sim = sim
        self.mi = sim.mi
        self.cpu = sim.cpu
        self.problems = []          # (cls, detail)
        self.flags = {'hic': False, 'residue': False}
        self.events = []            # trap events
        self.frames = {}            # id(frame) -> [base, gosubs, frame]
        self.check_depth = depth and self.mi.has_dbg
        self.check_types = types and self.mi.has_dbg
        self._op = None
        self._pc = None
        self.dispatches = 0
        self.stores_checked = 0
        self.depth_checked = 0
        self.max_problems = 4
        self.typemap = None
        self.suspended = None
        if self.check_types:
            from .typemap import TypeMap
            try:
                self.typemap = TypeMap(self.mi)
            except Exception as e:      # layout reader could not be built
                self.typemap = None
                self.typemap_error = repr(e)
        sim.pre_hooks.append(self.pre)
        sim.post_hooks.append(self.post)
        # every trap goes through cpu._trap: observe it (instance attribute)
        self._orig_trap = self.cpu._trap
        self.cpu._trap = self._trap

    # -- trap observation -------------------------------------------------------

    def _trap(self, code, **kwargs):
        cpu = self.cpu
        armed = (not cpu.error_handler_active) and cpu.trap_target is not None
        fd = frame_depth(cpu)
        excess = None
        fr = self.frames.get(id(cpu.cur_frame))
        if fr is not None:
            excess = len(cpu.stack) - (fr[0] + fr[1])
        ev = {'tick': self.sim.ticks, 'code': code.name, 'armed': armed,
              'mode': 'next' if cpu.trap_target == 'next' else
              ('goto' if cpu.trap_target is not None else None),
              'frames': fd, 'excess': excess, 'pc': cpu.prev_pc}
        self.events.append(ev)
        if armed:
            self.dispatches += 1
            if fd > 1:
                self.flags['hic'] = True
            if excess:
                self.flags['residue'] = True
        if code.name in MACHINE_FAULTS and not self._unallocated_dynamic_array(code, kwargs):
            self.problem('C03:machine-fault:' + code.name,
                         {'tick': self.sim.ticks, 'pc': cpu.prev_pc,
                          'line': self.mi.line_of(cpu.prev_pc) if self.mi.has_dbg else None,
                          'kwargs': {k: repr(v) for k, v in kwargs.items()}})
        mode = ev['mode']
        target = cpu.trap_target
        r = self._orig_trap(code, **kwargs)
        if armed and code.name != 'KEYBOARD_INTERRUPT':
            # C10: while a handler is armed every run-time error goes to it
            # (ON ERROR GOTO), or the failing statement is skipped (ON ERROR
            # RESUME NEXT) - the run does not stop with the error
            ok = True
            if mode == 'goto':
                ok = (not cpu.halted) and cpu.error_handler_active and cpu.pc == target
            elif mode == 'next':
                ok = (not cpu.halted) or (cpu.last_trap is not None and
                                          cpu.last_trap.name == 'CANNOT_RESUME')
            if not ok:
                self.problem('C10:not-dispatched',
                             {'tick': self.sim.ticks, 'pc': cpu.prev_pc, 'code': code.name,
                              'mode': mode, 'halted': cpu.halted,
                              'line': self.mi.line_of(cpu.prev_pc) if self.mi.has_dbg else None})
        if armed and fd > 1 and cpu.error_handler_active:
            # the handler runs on the module-level frame while the frames of
            # the interrupted call chain (and their stack entries) stay
            # suspended underneath until RESUME
            fm = self.frames.get(id(cpu.cur_frame))
            if fm is not None:
                self.suspended = (id(cpu.cur_frame),
                                  len(cpu.stack) - (fm[0] + fm[1]))
        return r

    def _unallocated_dynamic_array(self, code, kwargs):
        """NULL_REFERENCE from reading the reference cell of a dynamic array
        that was never allocated (its DIM failed or did not execute) is an
        error of the program, not confusion inside the machine."""
        if code.name != 'NULL_REFERENCE' or not self.mi.has_dbg:
            return False
        try:
            if self._null_tm is None:
                from .typemap import TypeMap
                self._null_tm = self.typemap or TypeMap(self.mi)
            tm = self._null_tm
            idx = kwargs.get('idx')
            if kwargs.get('scope') == 'global':
                cells = tm.globals
            else:
                cells = tm.cells_for_frame(self.cpu.cur_frame)
            return idx is not None and idx < len(cells) and isinstance(cells[idx], tuple)
        except Exception:
            return False

    _null_tm = None

    def problem(self, cls, detail):
        if len(self.problems) < self.max_problems:
            d = dict(detail)
            d['flags'] = dict(self.flags)
            self.problems.append((cls, d))

    # -- per tick ---------------------------------------------------------------

    def pre(self, sim, n, irq):
        cpu = self.cpu
        pc = cpu.pc
        ins = self.mi.instrs.get(pc)
        if irq or cpu.received_keyboard_interrupt:
            self._op = None
            return
        if ins is None:
            if pc < self.mi.code_len:
                self.problem('C03:pc-not-boundary', {'tick': n, 'pc': pc})
            self._op = None
            return
        self._op = ins
        self._pc = pc
        self._ref = None
        if self.typemap is not None and ins[0] == 'storeref' and cpu.stack:
            top = cpu.stack[-1]
            if top.type.name == 'REFERENCE':
                self._ref = (top.value.segment, top.value.index)
        if self.check_depth and pc in self.mi.stmt_starts and ins[0] != 'frame':
            fr = self.frames.get(id(cpu.cur_frame))
            if fr is not None:
                self.depth_checked += 1
                want = fr[0] + fr[1]
                if self.suspended is not None:
                    if not cpu.error_handler_active:
                        self.suspended = None
                    elif self.suspended[0] == id(cpu.cur_frame):
                        want += self.suspended[1]
                if len(cpu.stack) != want:
                    self.problem('C03:stack-depth',
                                 {'tick': n, 'pc': pc, 'depth': len(cpu.stack),
                                  'expected': want, 'gosubs': fr[1],
                                  'line': self.mi.stmt_starts[pc][2]})
                    # re-base so that one residue is reported once
                    fr[0] = len(cpu.stack) - fr[1]

    def post(self, sim, n):
        ins = self._op
        if ins is None:
            return
        cpu = self.cpu
        op = ins[0]
        if op in ('ijmp', 'pop') and self.events and self.events[-1]['tick'] == n:
            # the RETURN trapped (no GOSUB pending in that routine): nothing
            # was popped, and the handler may already run on another frame
            return
        if op in ('ijmp', 'pop') and self.suspended is not None \
                and self.suspended[0] == id(cpu.cur_frame):
            # the handler (module-level frame) left through RETURN: the
            # suspended call chain (and its stack entries) is abandoned; a
            # RETURN inside a procedure the handler calls is another matter
            self.suspended = None
        if op == 'frame':
            self.frames[id(cpu.cur_frame)] = [len(cpu.stack), 0, cpu.cur_frame]
        elif op == 'call':
            tgt = self.mi.instrs.get(ins[1][0])
            if tgt is not None and tgt[0] != 'frame':
                fr = self.frames.get(id(cpu.cur_frame))
                if fr is not None and cpu.pc == ins[1][0]:
                    fr[1] += 1
        elif op == 'ijmp':
            fr = self.frames.get(id(cpu.cur_frame))
            if fr is not None and fr[1] > 0:
                fr[1] -= 1
        elif op == 'pop':
            nxt = self.mi.instrs.get(self._pc + ins[2])
            if nxt is not None and nxt[0] == 'jmp':
                fr = self.frames.get(id(cpu.cur_frame))
                if fr is not None and fr[1] > 0 and self._is_return_label(self._pc):
                    fr[1] -= 1
        elif op in ('ret', 'retv'):
            # frames dict keeps only live frames
            if len(self.frames) > 64:
                live = set()
                f = cpu.cur_frame
                while f is not None:
                    live.add(id(f))
                    f = f.prev_frame
                for k in list(self.frames):
                    if k not in live:
                        del self.frames[k]
        if self.typemap is not None and op.startswith('store'):
            self.stores_checked += 1
            if op == 'storeref' and self._ref is not None:
                bad = self.typemap.check_ref_store(cpu, *self._ref)
            else:
                bad = self.typemap.check_store(cpu, ins, self._pc)
            if bad:
                self.problem('C03:cell-type', dict(bad, tick=n, pc=self._pc,
                                                   line=self.mi.line_of(self._pc)))

    def _is_return_label(self, pc):
        """`pop; jmp L` is how RETURN <label> is compiled; the statement that
        contains it must be a RETURN statement."""
        s = self.mi.innermost(pc)
        if s is None:
            return True
        src = self.mi.source[s[4]:s[5]].strip().lower()
        return src.startswith('return')

    def sweep(self):
        """Declared-type check of all live frames and the global area."""
        if self.typemap is None:
            return
        bad = self.typemap.sweep(self.cpu)
        for b in bad[:2]:
            self.problem('C03:cell-type', b)

    def sig(self):
        return dict(self.flags)
