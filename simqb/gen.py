"""Seeded, typed program generator (workload).  Swarm style: each program draws
a feature mask and size bounds.  Two families:

  'ref'  - the reference subset (everything the reference interpreter gives
           semantics to)
  'any'  - additionally statements outside that subset (SCREEN, WIDTH, COLOR,
           LOCATE, VIEW PRINT, PLAY, BLOAD/BSAVE/KILL, PRINT USING, ^)

Every choice comes from the `random.Random` passed in."""
from .qast import (NUM, RANK, CMP, LOGIC, expr_type, TypeEnv, number_stmts, sub_bodies,
                  name_type, paren_depth, pe)

INT_MAX = {'%': 32767, '&': 2147483647}

FEATURES = ('deftype', 'arrays', 'records', 'procs', 'gosub', 'select', 'strings',
            'floats', 'longs', 'devices', 'input', 'data', 'onerror', 'goto',
            'multi', 'ifl', 'loops', 'recursion', 'statics', 'shared',
            'consts', 'dynarrays', 'devfuncs')


def draw_profile(r, family='ref', **force):
    p = {f: r.random() < 0.6 for f in FEATURES}
    p['family'] = family
    p['size'] = r.choice((6, 10, 16, 24, 34))
    p['depth'] = r.choice((1, 2, 2, 3))
    p['edepth'] = r.choice((1, 2, 2, 3))
    p['onerror_mode'] = r.choice(('goto_next', 'goto_next', 'resume_next', 'goto_end', 'goto_reraise') +
                                 (('goto_return',) if family == 'any' else ()))
    p['plant'] = r.random() < 0.35
    p['fold_heavy'] = r.random() < 0.25
    p['final_newline'] = r.random() < 0.8
    p['raw'] = (family == 'any') and r.random() < 0.8
    if not p['onerror']:
        p['onerror_mode'] = None
    p.update(force)
    return p


class Scope:
    def __init__(self, g, name, parent=None):
        self.g = g
        self.env = None
        self.name = name
        self.vars = {}        # name -> type (scalars and record variables)
        self.arrays = {}      # name -> {'ty', 'bounds':[(lb,ub)], 'dyn'}
        self.consts = {}      # name -> type
        self.assignable = []  # scalar names that may be written
        self.loopvars = []    # (name, lo, hi) active FOR variables
        self.in_loop = []     # stack of 'for'/'do'/'while'
        self.kind = 'main'    # main | sub | function
        self.fname = None
        self.gosubs = []      # labels callable from here (main only)
        self.frozen = set()   # loop control variables: readable, never assigned

    def var_type(self, name):
        if name in self.vars:
            return self.vars[name]
        if name in self.consts:
            return self.consts[name]
        if name in self.g.shared_vars:
            return self.g.shared_vars[name]
        if name in self.g.global_consts:
            return self.g.global_consts[name]
        t = name_type(name)
        if t is None:
            raise KeyError(name)
        return t

    def array_type(self, name):
        if name in self.arrays:
            return self.arrays[name]['ty']
        return self.g.shared_arrays[name]['ty']

    def array_info(self, name):
        if name in self.arrays:
            return self.arrays[name]
        return self.g.shared_arrays[name]

    def all_arrays(self):
        d = dict(self.g.shared_arrays)
        d.update(self.arrays)
        return d

    def scalars_of(self, ty, writable=False):
        out = [n for n, t in self.vars.items() if t == ty]
        out += [n for n, t in self.g.shared_vars.items() if t == ty]
        if writable:
            out = [n for n in out if n not in self.frozen]
        else:
            out += [n for n, t in self.consts.items() if t == ty]
            out += [n for n, t in self.g.global_consts.items() if t == ty]
        return out

    def record_vars(self):
        out = [(n, t) for n, t in self.vars.items() if t.startswith('T:')]
        out += [(n, t) for n, t in self.g.shared_vars.items() if t.startswith('T:')]
        return out


class Gen:
    def __init__(self, r, prof):
        self.r = r
        self.p = prof
        self.counter = 0
        self.marker = 0
        self.types = []
        self.procs = []
        self.shared_vars = {}
        self.shared_arrays = {}
        self.global_consts = {}
        self.env = None
        self.labels = 0
        self.data_items = []     # (text, kind) in source order
        self.restore_labels = {}  # item index -> label of the DATA statement starting there
        self.data_types = []
        self.n_inputs = 0
        self.input_specs = []    # per INPUT statement: list of target types
        self.stmt_budget = prof['size']
        self.num_types = ['%']
        if prof['longs']:
            self.num_types.append('&')
        if prof['floats']:
            self.num_types += ['!', '#']

    # -- names ----------------------------------------------------------------

    def fresh(self, stem, ty=''):
        self.counter += 1
        return f'{stem}{self.counter}{ty}'

    def next_marker(self):
        self.marker += 1
        return self.marker

    # -- literals ---------------------------------------------------------------

    def lit(self, ty, small=True):
        r = self.r
        if ty == '%':
            if not small and r.random() < 0.15:
                return ['lit', '%', r.choice((32767, -32767, 32766, 255, 256, 1000))]
            return ['lit', '%', r.randint(-9, 20)]
        if ty == '&':
            if not small and r.random() < 0.15:
                return ['lit', '&', r.choice((2147483647, -2147483647, 65536, 40000, 100000))]
            return ['lit', '&', r.randint(-9, 40)]
        if ty == '!':
            return ['lit', '!', r.randint(-16, 40) / 4.0]
        if ty == '#':
            return ['lit', '#', r.randint(-32, 80) / 8.0]
        if ty == '$':
            return ['lit', '$', r.choice(('', 'a', 'B', 'xy', 'Hello', ' pad ', 'q7', 'zz top',
                                          'Hello', 'a', 't\tb'))]
        raise ValueError(ty)

    def pos_lit(self, lo=0, hi=5):
        """A small non-negative count / position argument; usually an INTEGER
        literal, sometimes of another numeric type or a LONG-typed expression
        (the generated code must convert it)."""
        r = self.r
        v = r.randint(lo, hi)
        x = r.random()
        if x < 0.7 or not self.p.get('longs', True):
            return ['lit', '%', v]
        if x < 0.8:
            return ['lit', '&', v]
        if x < 0.88 and self.p.get('floats'):
            return ['lit', r.choice('!#'), float(v)]
        if x < 0.94:
            # LEN(...) is LONG
            return ['bin', '+', ['fn', 'len', [['lit', '$', 'x' * max(v - lo, 0)]]], ['lit', '%', lo]]
        return ['bin', '+', ['lit', '&', v], ['lit', '%', 0]]

    # -- lvalues --------------------------------------------------------------

    def index_for(self, sc, lb, ub, depth):
        """An index expression, normally inside [lb, ub]."""
        r = self.r
        cands = [lv for lv in sc.loopvars if lb <= lv[1] and lv[2] <= ub]
        x = r.random()
        if cands and x < 0.4:
            return ['var', r.choice(cands)[0]]
        if x < 0.97 or not self.p.get("wild_index", True):
            return ['lit', '%', r.randint(lb, ub)]
        # an arbitrary integer variable: may be out of range (a run-time error
        # both sides must agree on)
        vs = sc.scalars_of('%')
        if vs:
            return ['var', r.choice(vs)]
        return ['lit', '%', r.randint(lb, ub)]

    def element(self, sc, name, depth=0):
        info = sc.array_info(name)
        return ['idx', name, [self.index_for(sc, lb, ub, depth)
                              for lb, ub in info['bounds']]]

    def lvalues(self, sc, ty, writable=True):
        """Candidate lvalue expressions of builtin type ty."""
        out = [['var', n] for n in sc.scalars_of(ty, writable=writable)]
        if self.p['arrays']:
            for an, info in sc.all_arrays().items():
                if info['ty'] == ty:
                    out.append(('elem', an))
                elif info['ty'].startswith('T:'):
                    for path, lt in self.env.leaves(info['ty']):
                        if lt == ty:
                            out.append(('elemfld', an, path))
        if self.p['records']:
            for rn, rt in sc.record_vars():
                for path, lt in self.env.leaves(rt):
                    if lt == ty:
                        out.append(['fld', ['var', rn], path])
        return out

    def pick_lvalue(self, sc, ty, writable=True):
        c = self.lvalues(sc, ty, writable)
        if not c:
            return None
        x = self.r.choice(c)
        if isinstance(x, tuple):
            if x[0] == 'elem':
                return self.element(sc, x[1])
            return ['fld', self.element(sc, x[1]), x[2]]
        return x

    # -- expressions ----------------------------------------------------------

    def num_leaf(self, sc, maxrank):
        r = self.r
        tys = [t for t in self.num_types if RANK[t] <= maxrank]
        ty = r.choice(tys)
        x = r.random()
        if x < 0.55:
            lv = self.pick_lvalue(sc, ty, writable=False)
            if lv is not None:
                return lv
        if x < 0.62 and self.p['devfuncs'] and sc.kind == 'main':
            return self.dev_num(sc, maxrank)
        return self.lit(ty, small=not self.p['fold_heavy'])

    def dev_num(self, sc, maxrank):
        r = self.r
        c = []
        if maxrank >= 2:
            c += ['rnd', 'timer']
        c += ['peek', 'err']
        k = r.choice(c)
        if k == 'err':
            return ['dev', 'err', []]
        if k == 'rnd':
            return r.choice((['dev', 'rnd', []], ['dev', 'rnd', [['lit', '%', 1]]],
                             ['dev', 'rnd', []], ['dev', 'rnd', [['lit', '%', 0]]],
                             ['dev', 'rnd', [['lit', '%', 0]]],
                             ['dev', 'rnd', [['lit', '%', r.choice((-1, -2, -7))]]]))
        if k == 'timer':
            return ['dev', 'timer', []]
        return ['dev', 'peek', [['lit', '%', r.randint(0, 2000)]]]

    def num_expr(self, sc, depth, maxrank=3):
        r = self.r
        if depth <= 0 or r.random() < 0.3:
            return self.num_leaf(sc, maxrank)
        x = r.random()
        if x < 0.45:
            op = r.choice(('+', '-', '*', '+', '-'))
            a = self.num_expr(sc, depth - 1, maxrank)
            b = self.num_expr(sc, depth - 1, maxrank)
            if op == '*' and r.random() < 0.7:
                b = self.lit('%')
            return ['bin', op, a, b]
        if x < 0.55:
            # integer division / MOD, divisor non-zero; mostly integral operands,
            # sometimes floats (which are rounded to integers first)
            mr = min(maxrank, 1)
            if maxrank >= 2 and self.p['floats'] and r.random() < 0.3:
                a = self.num_expr(sc, depth - 1, maxrank)
                d = r.choice((['lit', '!', 2.5], ['lit', '#', 1.5], ['lit', '!', 3.5], ['lit', '%', 2]))
                return ['bin', r.choice(('\\', 'mod')), a, d]
            a = self.num_expr(sc, depth - 1, mr)
            d = r.choice((1, 2, 3, 4, 5, 7, -2, -3))
            return ['bin', r.choice(('\\', 'mod')), a, ['lit', '%', d]]
        if x < 0.62 and maxrank >= 2 and self.p['floats']:
            a = self.num_expr(sc, depth - 1, 0 if r.random() < 0.5 else maxrank)
            if expr_type(a, sc) == '&':
                a = ['lit', '%', r.randint(1, 9)]
            d = r.choice((2, 4, 8, -2, 1))
            return ['bin', '/', a, ['lit', '%', d]]
        if x < 0.72:
            return ['un', 'neg', self.num_expr(sc, depth - 1, maxrank)]
        if x < 0.80:
            return self.cond(sc, depth - 1)
        if x < 0.86:
            mr = min(maxrank, 1)
            a = self.num_expr(sc, depth - 1, mr)
            b = self.num_expr(sc, depth - 1, mr)
            return ['bin', r.choice(LOGIC), a, b]
        if x < 0.90:
            return ['par', self.num_expr(sc, depth - 1, maxrank)]
        return self.num_fn(sc, depth - 1, maxrank)

    def num_fn(self, sc, depth, maxrank):
        r = self.r
        c = ['abs']
        if maxrank >= 1:
            c += ['len', 'clng', 'int', 'instr']
        if self.p['strings']:
            c += ['asc']
        c += ['cint']
        if maxrank >= 3 and self.p['strings']:
            c += ['val']
        if self.p['arrays'] and maxrank >= 1 and sc.all_arrays():
            c += ['ubound', 'lbound']
        k = r.choice(c)
        if k == 'abs':
            return ['fn', 'abs', [self.num_expr(sc, depth, maxrank)]]
        if k == 'len':
            return ['fn', 'len', [self.str_expr(sc, depth)]]
        if k in ('clng', 'int', 'cint'):
            return ['fn', k, [self.num_expr(sc, depth, 3)]]
        if k == 'instr':
            a = self.str_expr(sc, depth)
            b = ['lit', '$', r.choice(('a', 'l', 'z', 'el', 'o'))]
            if r.random() < 0.5:
                return ['fn', 'instr', [a, b]]
            return ['fn', 'instr', [['lit', '%', r.randint(1, 3)], a, b]]
        if k == 'asc':
            return ['fn', 'asc', [['bin', '+', ['lit', '$', r.choice(('A', 'z', '0'))],
                                   self.str_expr(sc, depth)]]]
        if k == 'val':
            return ['fn', 'val', [['lit', '$', r.choice(('12', '-3', '1.5', '0', ' 7', 'x', ''))]]]
        an = r.choice(sorted(sc.all_arrays()))
        info = sc.array_info(an)
        if len(info['bounds']) == 1 and r.random() < 0.5:
            return ['fn', k, [['var', an]]]
        return ['fn', k, [['var', an], ['lit', '%', r.randint(1, len(info['bounds']))]]]

    def str_expr(self, sc, depth):
        r = self.r
        if not self.p['strings']:
            return self.lit('$')
        if depth <= 0 or r.random() < 0.35:
            if r.random() < 0.6:
                lv = self.pick_lvalue(sc, '$', writable=False)
                if lv is not None:
                    return lv
            if self.p['devfuncs'] and sc.kind == 'main' and r.random() < 0.1:
                return ['dev', 'inkey$', []]
            return self.lit('$')
        x = r.random()
        if x < 0.35:
            return ['bin', '+', self.str_expr(sc, depth - 1), self.str_expr(sc, depth - 1)]
        s = self.str_expr(sc, depth - 1)
        n = self.pos_lit(0, 4)
        if r.random() < 0.25:
            n = self.num_expr(sc, 0, 0)
        k = r.choice(('left$', 'right$', 'mid$', 'mid2', 'ucase$', 'lcase$', 'ltrim$',
                      'rtrim$', 'space$', 'string$', 'chr$', 'str$'))
        if k in ('left$', 'right$'):
            return ['fn', k, [s, n]]
        if k == 'mid$':
            return ['fn', 'mid$', [s, self.pos_lit(1, 3), self.pos_lit(0, 3)]]
        if k == 'mid2':
            return ['fn', 'mid$', [s, self.pos_lit(1, 3)]]
        if k in ('ucase$', 'lcase$', 'ltrim$', 'rtrim$'):
            return ['fn', k, [s]]
        if k == 'space$':
            return ['fn', 'space$', [self.pos_lit(0, 3)]]
        if k == 'string$':
            if r.random() < 0.5:
                return ['fn', 'string$', [self.pos_lit(0, 3), ['lit', '$', r.choice(('x', 'ab'))]]]
            return ['fn', 'string$', [self.pos_lit(0, 3), ['lit', '%', r.randint(65, 90)]]]
        if k == 'chr$':
            # (also character codes above 127: they order and convert by code page 437)
            return ['fn', 'chr$', [['lit', '%', r.choice((r.randint(48, 122), r.randint(48, 122), r.randint(128, 255), r.choice((128, 129, 130, 255))))]]]
        return ['fn', 'str$', [self.num_expr(sc, 0, 1)]]

    def cond(self, sc, depth):
        r = self.r
        x = r.random()
        if x < 0.2 and self.p['strings']:
            return ['bin', r.choice(CMP), self.str_expr(sc, min(depth, 1)),
                    self.str_expr(sc, min(depth, 1))]
        if x < 0.3 and depth > 0:
            return ['bin', r.choice(('and', 'or')), self.cond(sc, depth - 1),
                    self.cond(sc, depth - 1)]
        if x < 0.36 and depth > 0:
            return ['un', 'not', self.cond(sc, depth - 1)]
        if x < 0.46:
            # a condition that is a number, not a comparison: true when it is
            # not zero - a bit test, a LONG, a fraction below one half
            k = r.random()
            if k < 0.35:
                return ['bin', 'and', self.num_leaf(sc, 1), ['lit', '%', r.choice((1, 2, 4, 8))]]
            if k < 0.7:
                return self.num_leaf(sc, 3)
            if k < 0.85 and self.p['floats']:
                return ['lit', r.choice('!#'), r.choice((0.25, 0.5, -0.25, 0.0, 1.5))]
            return self.num_expr(sc, min(depth, 1), 3)
        return ['bin', r.choice(CMP), self.num_expr(sc, depth, 3),
                self.num_expr(sc, depth, 3)]

    def any_expr(self, sc, depth):
        if self.p['strings'] and self.r.random() < 0.3:
            return self.str_expr(sc, depth)
        return self.num_expr(sc, depth, 3)

    def bounded(self, e, sc):
        """Keep parenthesis nesting <= 3 (qbee's parse time explodes beyond)."""
        if paren_depth(e) > 3:
            t = expr_type(e, sc)
            return self.lit(t if t in '%&!#$' else '%')
        return e

    # -- statements -------------------------------------------------------------

    def assign(self, sc):
        r = self.r
        tys = list(self.num_types) + (['$'] if self.p['strings'] else [])
        for _ in range(4):
            ty = r.choice(tys)
            lv = self.pick_lvalue(sc, ty)
            if lv is None:
                continue
            if r.random() < (0.4 if lv[0] == 'fld' else 0.12):
                # plain copy between two locations of one type (fields of one
                # record, elements of one array, two scalars)
                src = None
                if lv[0] == 'fld' and lv[1][0] == 'var':
                    rt = sc.var_type(lv[1][1])
                    alts = [p for p, lt in self.env.leaves(rt) if lt == ty and p != lv[2]]
                    if alts:
                        src = ['fld', lv[1], r.choice(alts)]
                elif lv[0] == 'idx':
                    src = self.element(sc, lv[1])
                if src is None:
                    src = self.pick_lvalue(sc, ty, writable=False)
                if src is not None and src != lv:
                    return {'k': 'let', 'lv': lv, 'e': src}
            if ty == '$':
                e = self.str_expr(sc, self.p['edepth'])
            else:
                # keep values from growing: mostly same-or-lower rank
                e = self.num_expr(sc, self.p['edepth'], 3 if r.random() < 0.3 else RANK[ty])
            return {'k': 'let', 'lv': lv, 'e': self.bounded(e, sc)}
        return {'k': 'let', 'lv': ['var', self.new_scalar(sc, '%')], 'e': self.lit('%')}

    def new_scalar(self, sc, ty):
        n = self.fresh('v', ty)
        sc.vars[n] = ty
        return n

    def print_stmt(self, sc, n=None, marker=True):
        r = self.r
        items = []
        if marker:
            m = self.next_marker()
            items.append([['lit', '$', f'<{m}>'], ';'])
        n = r.randint(0, 3) if n is None else n
        for i in range(n):
            e = self.bounded(self.any_expr(sc, min(self.p['edepth'], 2)), sc)
            items.append([e, r.choice((';', ';', ','))])
        if items:
            x = r.random()
            if x < 0.75:
                items[-1][1] = ''
        st = {'k': 'print', 'items': items}
        if marker:
            st['marker'] = m
        return st

    def device_stmt(self, sc):
        r = self.r
        k = r.choice(('beep', 'sound', 'poke', 'defseg', 'cls', 'randomize'))
        m = self.next_marker()
        if k == 'beep':
            return {'k': 'beep'}
        if k == 'cls':
            return {'k': 'cls'}
        if k == 'sound':
            return {'k': 'sound', 'f': ['lit', '%', 1000 + m],
                    'd': ['lit', '%', r.randint(0, 5)], 'marker': m}
        if k == 'poke':
            return {'k': 'poke', 'a': ['lit', '%', m],
                    'v': r.choice((['lit', '%', r.randint(0, 255)],
                                   ['bin', 'and', self.num_expr(sc, 1, 0), ['lit', '%', 255]])),
                    'marker': m}
        if k == 'defseg':
            if r.random() < 0.4:
                return {'k': 'defseg', 'e': None}
            return {'k': 'defseg', 'e': ['lit', '%', r.choice((0, 1, 4096))]}
        return {'k': 'randomize', 'e': self.num_expr(sc, 1, 2)}

    RAW = (
        'screen 0', 'width 80, 25', 'color 7, 0', 'color 7', 'color , 1',
        'locate 1, 1', 'locate , 3', 'locate 2, 3, 1', 'view print 1 to 10',
        'view print', 'play "abc"', 'print using "##.#"; 1.5',
        'print using "& #"; "x"; 2', 'kill "f.txt"', 'bsave "f", 0, 10',
        'bload "f", 0', 'width 40', 'screen 1', 'color 31, 7, 15',
        'print using "###"; 1000', 'def seg = &hb800', 'bsave "g", 0, 10', 'poke 1048, 65',
        'def seg = 0', 'x9# = peek(1047)', 'x9# = 1d308 * 10', 'x9# = 1d308 : y9% = x9#',
        'print string$(3, 300)', 'print string$(2, -1)', 'print using "##"; 1; 2',
        'print using "##"; "x"', 'print using "## ##"; 1', 'print using "!"; ""', 'print using "&"; 5', 'x9# = 1d308 : print int(x9#)', 'x9# = 1d308 : print space$(x9#)',
        'x9! = 3e38 : x9! = x9! * 10', 'print val("1e999")', 'locate 300, 1', 'sound 20, 1',
    )

    def raw_stmt(self, sc):
        r = self.r
        if not self.data_items and not self.p['data'] and r.random() < 0.1:
            # RESTORE (and a READ) in a program that has no DATA at all
            return {'k': 'raw', 'text': r.choice(('restore', 'restore : read x7%', 'read x7$'))}
        if sc.kind != 'main' and r.random() < 0.2:
            # a RETURN in a procedure that never did a GOSUB
            return {'k': 'raw', 'text': 'return'}
        if r.random() < 0.25:
            # '^' with benign operands
            lv = self.pick_lvalue(sc, '#') or ['var', self.new_scalar(sc, '#')]
            a = self.num_expr(sc, 1, 3)
            return {'k': 'let', 'lv': lv,
                    'e': ['raw', '(' + (pe(a) if r.random() < 0.7 else r.choice(('0', '0', '0 * 1', '-8', '10'))) + ') ^ '
                          + r.choice(('2', '3', '0', '.5', '(0 - 1)', '2.5', '400', '(0 - 2)')), '#'],
                    'rawexpr': True}
        x = r.random()
        if x < 0.2:
            # PRINT USING with a random format string and 0-3 values
            fmt = ''.join(r.choice('##..,+-&!_$*^ ab%') for _ in range(r.randint(1, 8)))
            vals = [r.choice(('1.5', '-2', '1000000', '"xy"', '""', '0', '12345.678', '1d300', '-0.004'))
                    for _ in range(r.randint(0, 3))]
            return {'k': 'raw', 'text': 'print using "' + fmt + '"; ' + '; '.join(vals)
                    + r.choice(('', ';'))}
        if x < 0.35:
            # VAL of text that is almost a number
            t = ''.join(r.choice('0123456789.-+eEdD&hHoO%!# xyz') for _ in range(r.randint(0, 9)))
            t = r.choice((t, t, '99999%', '&HFFFFFFFFFF', '&O777777777777', '1e', '.', '-', '&H', '1d999', '40000%',
                          '3000000000&'))
            return {'k': 'raw', 'text': 'print val("' + t + '")'}
        if x < 0.4:
            return {'k': 'raw', 'text': r.choice(('x8& = 7 : y8& = 400000 : print x8& ^ y8&',
                                                  'x8% = 2 : print x8% ^ 14; x8% ^ 15; x8% ^ 16',
                                                  'return', 'x8& = 3 : print x8& ^ x8& ^ x8& ^ x8&'))}
        return {'k': 'raw', 'text': r.choice(self.RAW)}

    def input_stmt(self, sc):
        r = self.r
        n = r.randint(1, 3)
        lvs, tys = [], []
        for _ in range(n):
            ty = r.choice(list(self.num_types) + (['$'] if self.p['strings'] else []))
            lv = self.pick_lvalue(sc, ty) or ['var', self.new_scalar(sc, ty)]
            lvs.append(lv)
            tys.append(ty)
        self.input_specs.append(tys)
        pk = r.random()
        st = {'k': 'input', 'lvs': lvs, 'prompt': None, 'psep': ';', 'semi': False}
        if pk < 0.6:
            st['prompt'] = r.choice(('p', 'Enter', 'v=', ''))
            st['psep'] = r.choice((';', ','))
        return st

    def data_read(self, sc):
        r = self.r
        if self.data_items and r.random() < 0.3:
            # RESTORE, then read the first items again (same types); or
            # RESTORE <label> to the DATA statement that starts at item k
            k = 0
            lab = None
            if r.random() < 0.5:
                k = r.randint(0, len(self.data_items) - 1)
                lab = self.restore_labels.get(k)
                if lab is None:
                    lab = self.restore_labels[k] = self.fresh('dl')
            n = min(len(self.data_items) - k, r.randint(1, 3))
            lvs = []
            for ty in self.data_types[k:k + n]:
                lvs.append(self.pick_lvalue(sc, ty) or ['var', self.new_scalar(sc, ty)])
            if lvs:
                return [{'k': 'restore', 'label': lab}, {'k': 'read', 'lvs': lvs}]
            if lab is not None and not any(v == lab for v in self.restore_labels.values()):
                pass
            return [{'k': 'restore', 'label': lab}]
        n = r.randint(1, 3)
        lvs = []
        for _ in range(n):
            ty = r.choice(list(self.num_types) + (['$'] if self.p['strings'] else []))
            lv = self.pick_lvalue(sc, ty) or ['var', self.new_scalar(sc, ty)]
            lvs.append(lv)
            self.data_types.append(ty)
            if ty == '$':
                self.data_items.append(r.choice(('abc', '"x, y"', 'two words', '', '"q"', 'tab\there')))
            elif ty in '%&':
                self.data_items.append(str(r.randint(-20, 99)))
            else:
                self.data_items.append(r.choice(('1.5', '-2.25', '3', '0.125', '')))
        return {'k': 'read', 'lvs': lvs}

    def if_stmt(self, sc, depth):
        r = self.r
        if self.p['ifl'] and r.random() < 0.35:
            th = [self.simple(sc) for _ in range(r.randint(1, 2))]
            el = None
            if r.random() < 0.5:
                el = [self.simple(sc) for _ in range(r.randint(1, 2))]
            for x in th + (el or []):
                # "print a, else ..." does not parse: no trailing separator
                if x['k'] == 'print' and x['items']:
                    x['items'][-1][1] = ''
            return {'k': 'ifl', 'cond': self.bounded(self.cond(sc, 1), sc), 'then': th, 'els': el}
        if r.random() < 0.1:
            # IF <compile-time constant> THEN with a one-statement body and no
            # ELSE - the CONST tracing = 1 / IF tracing THEN idiom (an optimiser
            # may replace the block by its body) - or with a constant zero
            ks = [n for n, t in sorted(self.global_consts.items()) if t in '%&!#'] if sc.kind == 'main' else []
            c = ['var', r.choice(ks)] if ks and r.random() < 0.6 else \
                r.choice((['lit', '%', 1], ['lit', '%', -1], ['lit', '%', 0],
                          ['bin', '=', ['lit', '%', 2], ['lit', '%', 2]]))
            return {'k': 'if', 'arms': [[c, [self.simple(sc)]]], 'els': None}
        arms = []
        for _ in range(r.choice((1, 1, 1, 2, 3))):
            body = self.block(sc, r.randint(0, 3), depth - 1)
            arms.append([self.bounded(self.cond(sc, 1), sc), body])
        els = None
        if r.random() < 0.5:
            els = self.block(sc, r.randint(0, 2), depth - 1)
        st = {'k': 'if', 'arms': arms, 'els': els}
        if len(arms) > 1 and r.random() < 0.35:
            st['inline_arms'] = [i for i in range(1, len(arms)) if r.random() < 0.7]
        return st

    def for_stmt(self, sc, depth):
        r = self.r
        ty = r.choice(self.num_types) if r.random() < 0.3 else '%'
        v = None
        if sc.kind != 'main' and r.random() < 0.3:
            # a by-reference parameter as control variable
            ps = [n for n, t in sc.vars.items() if n.startswith('p') and t in self.num_types
                  and n not in sc.frozen and n[1:2].isdigit()]
            if ps:
                v = r.choice(sorted(ps))
                ty = sc.vars[v]
        if v is None:
            v = self.new_scalar(sc, ty)
        sc.frozen.add(v)
        lo = r.randint(-2, 3)
        n = r.randint(0, 4)
        step = r.choice((None, None, 1, 2, -1, -2))
        if ty in '!#' and r.random() < 0.5:
            step = r.choice((0.5, 0.25, -0.5))
        if step is not None and step < 0:
            a, b = lo + n, lo
        else:
            a, b = lo, lo + n
        if r.random() < 0.08:
            a, b = b + 1, a   # zero-trip loop
        st = {'k': 'for', 'var': v, 'a': ['lit', '%', a], 'b': ['lit', '%', b],
              'step': None if step is None else
              (['lit', '%', step] if isinstance(step, int) else ['lit', '!', step]),
              'nextvar': r.random() < 0.5}
        if r.random() < 0.2:
            st['b'] = ['bin', '+', ['lit', '%', b - 1], ['lit', '%', 1]]
        if ty == '%' and r.random() < 0.06:
            # a range wider than the type: limit - start does not fit
            k = r.choice((10000, 16000))
            st.update(a=['lit', '%', -2 * k], b=['lit', '%', 2 * k], step=['lit', '%', k])
            if r.random() < 0.5:
                st.update(a=['lit', '%', 2 * k], b=['lit', '%', -2 * k], step=['lit', '%', -k])
            step = k
            a, b = -2 * k, 2 * k
        elif self.p['devfuncs'] and sc.kind == 'main' and r.random() < 0.1 and isinstance(step, int):
            # start, limit and step each make a device call: the order of
            # evaluation is visible in the device history
            def pk(n, e):
                return ['bin', '+', ['bin', '*', ['dev', 'peek', [['lit', '%', n]]], ['lit', '%', 0]], e]
            st.update(a=pk(1, st['a']), b=pk(2, st['b']), step=pk(3, st['step']))
        pre = []
        tamper = []
        if r.random() < 0.25:
            # the limit (and sometimes the step) is a plain variable of the
            # control variable's type which the body changes: both are
            # evaluated once, before the first iteration
            lim = self.new_scalar(sc, ty)
            pre.append({'k': 'let', 'lv': ['var', lim], 'e': st['b'] if st['b'][0] == 'lit' else ['lit', '%', b]})
            st['b'] = ['var', lim]
            tamper.append({'k': 'let', 'lv': ['var', lim],
                           'e': ['bin', r.choice(('+', '-')), ['var', lim], ['lit', '%', r.choice((1, 2, 5))]]})
            if st['step'] is not None and r.random() < 0.5:
                sv = self.new_scalar(sc, ty)
                pre.append({'k': 'let', 'lv': ['var', sv], 'e': st['step']})
                st['step'] = ['var', sv]
                tamper.append({'k': 'let', 'lv': ['var', sv],
                               'e': ['bin', '+', ['var', sv], ['lit', '%', 1]]})
        intstep = isinstance(step, int) or step is None
        sc.loopvars.append((v, min(a, b), max(a, b)) if (ty in '%&' and intstep)
                           else (v, 10**9, -10**9))
        sc.in_loop.append('for')
        st['body'] = self.block(sc, r.randint(1, 3), depth - 1)
        sc.in_loop.pop()
        sc.loopvars.pop()
        if tamper:
            st['body'] = tamper + st['body'] if r.random() < 0.5 else st['body'] + tamper
            return pre + [st]
        return st

    def loop_stmt(self, sc, depth):
        """WHILE / DO loops driven by a dedicated counter so they terminate."""
        r = self.r
        if r.random() < 0.12:
            # a loop with an empty body whose condition lives on the LOOP /
            # WHILE line, ends at its first evaluation and (when device
            # functions are enabled) makes a device call there
            if self.p['devfuncs'] and sc.kind == 'main':
                dv = r.choice((['dev', 'rnd', []], ['dev', 'timer', []],
                               ['dev', 'peek', [['lit', '%', r.randint(0, 999)]]]))
            else:
                dv = ['fn', 'abs', [self.num_leaf(sc, 1)]]
            t = ['bin', '>=', dv, ['lit', '%', 0]]        # always true
            f = ['bin', '<', dv, ['lit', '%', 0]]         # always false
            form = r.choice(('post_until', 'post_while', 'pre_until', 'while'))
            body, front = [], []
            if r.random() < 0.5:
                # a body that is not empty but has no code (a CONST, the DIM of
                # a scalar), and perhaps such a statement right in front of
                # the loop as well
                def codeless():
                    if r.random() < 0.5:
                        n_ = self.fresh('kq', '%')     # (never referenced again)
                        return {'k': 'const', 'name': n_, 'e': ['lit', '%', r.randint(1, 9)]}
                    n_ = self.fresh('wq')
                    return {'k': 'dim', 'shared': False, 'name': n_, 'bounds': None, 'ty': '%', 'as': True}
                if sc.kind == 'main' or not self.p.get('statics'):
                    body = [codeless()]
                    if r.random() < 0.6:
                        front = [codeless()]
            if form == 'post_until':
                return front + [{'k': 'do', 'pre': None, 'post': ['until', t], 'body': body}]
            if form == 'post_while':
                return front + [{'k': 'do', 'pre': None, 'post': ['while', f], 'body': body}]
            if form == 'pre_until':
                return front + [{'k': 'do', 'pre': ['until', t], 'post': None, 'body': body}]
            return front + [{'k': 'while', 'cond': f, 'body': body}]
        if self.p['devfuncs'] and self.p['strings'] and sc.kind == 'main' \
                and r.random() < self.p.get('waitkey', 0.12):
            # the wait-for-a-key idiom: poll INKEY$ until it answers (or a
            # few polls have gone by)
            c = self.new_scalar(sc, '%')
            sc.frozen.add(c)
            ks = self.new_scalar(sc, '$')
            m = self.next_marker()
            return [{'k': 'let', 'lv': ['var', c], 'e': ['lit', '%', 0]},
                    {'k': 'do', 'pre': None,
                     'post': ['until', ['bin', 'or', ['bin', '<>', ['var', ks], ['lit', '$', '']],
                                        ['bin', '>=', ['var', c], ['lit', '%', r.randint(2, 5)]]]],
                     'body': [{'k': 'let', 'lv': ['var', c], 'e': ['bin', '+', ['var', c], ['lit', '%', 1]]},
                              {'k': 'let', 'lv': ['var', ks], 'e': ['dev', 'inkey$', []]}]},
                    {'k': 'print', 'marker': m,
                     'items': [[['lit', '$', f'<{m}>'], ';'], [['var', ks], ';'], [['var', c], '']]}]
        c = self.new_scalar(sc, '%')
        sc.frozen.add(c)
        n = r.randint(1, 4)
        init = {'k': 'let', 'lv': ['var', c], 'e': ['lit', '%', 0]}
        inc = {'k': 'let', 'lv': ['var', c], 'e': ['bin', '+', ['var', c], ['lit', '%', 1]]}
        sc.loopvars.append((c, 10**9, -10**9))   # counter is read-only for the body
        form = r.choice(('while', 'do_pre_while', 'do_pre_until', 'do_post_while',
                         'do_post_until', 'do_exit'))
        sc.in_loop.append('while' if form == 'while' else 'do')
        body = self.block(sc, r.randint(1, 3), depth - 1)
        sc.in_loop.pop()
        sc.loopvars.pop()
        body = [inc] + body if r.random() < 0.5 else body + [inc]
        # an inc at the end could be skipped by EXIT, which only ends the loop
        lt = ['bin', '<', ['var', c], ['lit', '%', n]]
        ge = ['bin', '>=', ['var', c], ['lit', '%', n]]
        if r.random() < 0.3:
            # the same conditions as plain numbers: n - c (or half of it, a
            # fraction) is non-zero while c < n; c \ n is 0, then 1
            lt = ['bin', '-', ['lit', '%', n], ['var', c]]
            if self.p['floats'] and r.random() < 0.5:
                lt = ['bin', '/', lt, ['lit', '%', 2]]
            elif self.p['longs'] and r.random() < 0.5:
                lt = ['bin', '*', lt, ['lit', '&', 70000]]
            ge = ['bin', '\\', ['var', c], ['lit', '%', n]]
        if form == 'while':
            loop = {'k': 'while', 'cond': lt, 'body': body}
        elif form == 'do_pre_while':
            loop = {'k': 'do', 'pre': ['while', lt], 'post': None, 'body': body}
        elif form == 'do_pre_until':
            loop = {'k': 'do', 'pre': ['until', ge], 'post': None, 'body': body}
        elif form == 'do_post_while':
            loop = {'k': 'do', 'pre': None, 'post': ['while', lt], 'body': body}
        elif form == 'do_post_until':
            loop = {'k': 'do', 'pre': None, 'post': ['until', ge], 'body': body}
        else:
            ex = {'k': 'ifl', 'cond': ge, 'then': [{'k': 'exit', 'what': 'do'}], 'els': None}
            loop = {'k': 'do', 'pre': None, 'post': None, 'body': [inc, ex] + [b for b in body if b is not inc]}
        return [init, loop]

    def select_stmt(self, sc, depth):
        r = self.r
        if self.p['strings'] and r.random() < 0.25:
            e = self.str_expr(sc, 1)
            mk = lambda: self.lit('$')
        else:
            e = self.num_expr(sc, 1, 3)
            mk = lambda: self.lit(r.choice(self.num_types))
        cases = []
        for _ in range(r.randint(1, 3)):
            tests = []
            for _ in range(r.randint(1, 2)):
                x = r.random()
                if x < 0.5:
                    tests.append(['eq', mk()])
                elif x < 0.75:
                    a, b = mk(), mk()
                    if a[2] > b[2]:
                        a, b = b, a
                    tests.append(['range', a, b])
                else:
                    tests.append(['is', r.choice(CMP), mk()])
            cases.append([tests, self.block(sc, r.randint(0, 2), depth - 1)])
        els = self.block(sc, r.randint(0, 2), depth - 1) if r.random() < 0.6 else None
        return {'k': 'select', 'e': self.bounded(e, sc), 'cases': cases, 'els': els}

    def record_lvalues(self, sc, rty):
        """Lvalues that denote a whole record of type rty: record variables,
        elements of arrays of records, and record-typed fields of either."""
        out = []

        def sub(base, bty):
            if bty == rty:
                out.append(base)
            for fn, ft in self.env.types[bty[2:]]:
                if ft.startswith('T:'):
                    if base[0] == 'fld':
                        sub(['fld', base[1], base[2] + [fn]], ft)
                    else:
                        sub(['fld', base, [fn]], ft)
        for rn, rt in sc.record_vars():
            sub(['var', rn], rt)
        for an, info in sorted(sc.all_arrays().items()):
            if info['ty'].startswith('T:'):
                sub(('elem', an), info['ty'])
        return out

    def pick_record_lvalue(self, sc, rty):
        c = self.record_lvalues(sc, rty)
        if not c:
            return None

        def fix(x):
            if isinstance(x, tuple):
                return self.element(sc, x[1])
            if x[0] == 'fld':
                return ['fld', fix(x[1]), x[2]]
            return x
        return fix(self.r.choice(c))

    def call_args(self, sc, proc, depth=1):
        r = self.r
        args = []
        for pname, pty, isarr in proc['params']:
            if not isarr and pty.startswith('T:'):
                # a record is always passed by reference
                args.append(self.pick_record_lvalue(sc, pty))
                continue
            if isarr:
                c = [an for an, info in sc.all_arrays().items()
                     if info['ty'] == pty and len(info['bounds']) == proc['arr_rank'][pname]
                     and tuple(info['bounds']) == tuple(proc['arr_bounds'][pname])]
                args.append(['arr', r.choice(sorted(c))])
                continue
            k0 = r.random()
            if k0 < 0.5:
                lv = self.pick_lvalue(sc, pty)
                if lv is not None:
                    args.append(lv)     # by reference
                    continue
            elif k0 < 0.7 and pty != '$':
                # a variable (of the parameter's type or of another numeric
                # type) made an expression by a neutral element: by value
                vt = r.choice(self.num_types)
                lv = self.pick_lvalue(sc, vt, writable=False)
                if lv is not None and RANK[vt] <= RANK[pty] + 1:
                    k = r.random()
                    if k < 0.25:
                        e = ['un', 'pos', lv]
                    elif k < 0.5:
                        e = ['bin', '+', lv, ['lit', '%', 0]]
                    elif k < 0.65:
                        e = ['bin', '*', lv, ['lit', '%', 1]]
                    elif k < 0.8:
                        e = ['bin', '-', lv, ['lit', '%', 0]]
                    elif k < 0.9:
                        e = ['bin', '+', ['lit', '%', 0], lv]
                    else:
                        e = ['par', lv]
                    args.append(self.bounded(e, sc))
                    continue
            if pty == '$':
                e = self.str_expr(sc, depth)
            else:
                e = self.num_expr(sc, depth, RANK[pty])
            if e[0] in ('var', 'idx', 'fld'):
                # an lvalue in parentheses, with a unary plus or combined
                # with a neutral element is an expression: passed by value
                k = r.random()
                if pty == '$':
                    e = ['par', e] if k < 0.7 else ['bin', '+', e, ['lit', '$', '']]
                elif k < 0.4:
                    e = ['par', e]
                elif k < 0.6:
                    e = ['un', 'pos', e]
                elif k < 0.7:
                    e = ['bin', '+', e, ['lit', '%', 0]]
                elif k < 0.8:
                    e = ['bin', '*', e, ['lit', '%', 1]]
                elif k < 0.9:
                    e = ['bin', '-', e, ['lit', '%', 0]]
                else:
                    e = ['bin', r.choice(('+', '*')), ['lit', '%', 0 if k < 0.95 else 1], e]
                    if e[1] == '+' and e[2][2] != 0 or e[1] == '*' and e[2][2] != 1:
                        e = ['bin', '+', ['lit', '%', 0], e[3]]
            args.append(self.bounded(e, sc))
        return args

    def callable_procs(self, sc, kind):
        out = []
        for p in self.procs:
            if p['kind'] != kind:
                continue
            if sc.kind != 'main' and p['order'] >= sc.order:
                continue
            ok = True
            for pname, pty, isarr in p['params']:
                if isarr:
                    c = [an for an, info in sc.all_arrays().items()
                         if info['ty'] == pty and len(info['bounds']) == p['arr_rank'][pname]
                         and tuple(info['bounds']) == tuple(p['arr_bounds'][pname])]
                    if not c:
                        ok = False
                elif pty.startswith('T:') and not self.record_lvalues(sc, pty):
                    ok = False
            if ok:
                out.append(p)
        return out

    def call_stmt(self, sc):
        ps = self.callable_procs(sc, 'sub')
        if not ps:
            return None
        p = self.r.choice(ps)
        args = self.call_args(sc, p)
        # a bare argument-less call followed by ':' would read as a label
        return {'k': 'call', 'name': p['name'], 'args': args,
                'style': self.r.choice(('call', 'bare')) if args else 'call'}

    def func_call_stmt(self, sc):
        ps = self.callable_procs(sc, 'function')
        if not ps:
            return None
        p = self.r.choice(ps)
        ty = name_type(p['name'])
        e = ['call', p['name'], self.call_args(sc, p)]
        if p.get('recursive'):
            e[2][0] = ['lit', '%', self.r.randint(0, 4)]
        if ty == '$':
            lv = self.pick_lvalue(sc, '$') or ['var', self.new_scalar(sc, '$')]
        else:
            lv = self.pick_lvalue(sc, ty) or ['var', self.new_scalar(sc, ty)]
            if self.r.random() < 0.4:
                e = ['bin', '+', e, self.lit('%')]
        return {'k': 'let', 'lv': lv, 'e': e}

    def simple(self, sc):
        """A simple one-line statement."""
        r = self.r
        for _ in range(6):
            x = r.random()
            if x < 0.40:
                return self.assign(sc)
            if x < 0.68:
                return self.print_stmt(sc)
            if x < 0.76 and self.p['devices']:
                return self.device_stmt(sc)
            if x < 0.84 and self.p['procs']:
                s = self.call_stmt(sc) if r.random() < 0.6 else self.func_call_stmt(sc)
                if s:
                    return s
            if x < 0.88 and self.p['gosub'] and sc.kind == 'main' and sc.gosubs:
                return {'k': 'gosub', 'label': r.choice(sc.gosubs)}
            if x < 0.92 and self.p['raw']:
                return self.raw_stmt(sc)
            if x < 0.95 and sc.in_loop and sc.in_loop[-1] in ('for', 'do') \
                    and r.random() < 0.3:
                return {'k': 'exit', 'what': sc.in_loop[-1]}
        return self.assign(sc)

    def fill_dump(self, sc):
        """Write a distinct value into every element of an array with nested
        FOR loops, then read all of them back: neighbours must not alias."""
        r = self.r
        cands = [(n, i) for n, i in sorted(sc.all_arrays().items())
                 if i['ty'] in '%&!#' and not i['dyn'] or (i['ty'] in '%&!#' and r.random() < 0.5)]
        if not cands:
            return None
        name, info = r.choice(cands)
        ivs = [self.new_scalar(sc, '%') for _ in info['bounds']]
        for v in ivs:
            sc.frozen.add(v)
        val = ['lit', '%', 0]
        for k, v in enumerate(ivs):
            val = ['bin', '+', ['bin', '*', val, ['lit', '%', 7]], ['var', v]]
        elem = ['idx', name, [['var', v] for v in ivs]]

        def nest(body_stmt):
            st = body_stmt
            for v, (lb, ub) in reversed(list(zip(ivs, info['bounds']))):
                st = {'k': 'for', 'var': v, 'a': ['lit', '%', lb], 'b': ['lit', '%', ub],
                      'step': None, 'nextvar': r.random() < 0.5, 'body': [st]}
            return st
        m = self.next_marker()
        fill = nest({'k': 'let', 'lv': elem, 'e': val})
        dump = nest({'k': 'print', 'items': [[['lit', '$', f'<{m}>'], ';'], [elem, ';']], 'marker': m})
        return [fill, dump]

    def call_and_look(self, sc):
        """A SUB call followed by a PRINT of the variables that were handed
        over (by reference or inside a by-value expression)."""
        r = self.r
        s = self.call_stmt(sc)
        if s is None:
            return None
        seen = []
        for a in s['args']:
            while a[0] in ('par', 'un', 'bin'):
                a = a[-1] if a[0] != 'bin' else (a[2] if a[2][0] != 'lit' else a[3])
            if a[0] == 'var' and a not in seen and a[1] not in sc.consts \
                    and a[1] not in self.global_consts:
                try:
                    if sc.var_type(a[1]) in '%&!#$':
                        seen.append(a)
                except KeyError:
                    pass
        if not seen:
            return [s]
        m = self.next_marker()
        pr = {'k': 'print', 'marker': m,
              'items': [[['lit', '$', f'<{m}>'], ';']] + [[a, ';'] for a in seen[:3]]}
        pr['items'][-1][1] = ''
        if self.p['multi'] and r.random() < 0.5:
            return [{'k': 'multi', 'stmts': [s, pr]}]
        return [s, pr]

    def statement(self, sc, depth):
        """Returns a list of statements."""
        r = self.r
        self.stmt_budget -= 1
        x = r.random()
        if self.p['procs'] and r.random() < 0.08:
            cl = self.call_and_look(sc)
            if cl:
                return cl
        if self.p['arrays'] and self.p['loops'] and depth > 0 and r.random() < 0.06:
            fd = self.fill_dump(sc)
            if fd:
                return fd
        if depth > 0 and self.stmt_budget > 0:
            if x < 0.12:
                return [self.if_stmt(sc, depth)]
            if x < 0.20 and self.p['loops']:
                fs = self.for_stmt(sc, depth)
                return fs if isinstance(fs, list) else [fs]
            if x < 0.26 and self.p['loops']:
                return self.loop_stmt(sc, depth)
            if x < 0.31 and self.p['select']:
                return [self.select_stmt(sc, depth)]
        if x < 0.36 and self.p['multi']:
            return [{'k': 'multi', 'stmts': [self.simple(sc) for _ in range(r.randint(2, 3))]}]
        if x < 0.40 and self.p['input'] and sc.kind == 'main':
            return [self.input_stmt(sc)]
        if x < 0.44 and self.p['data'] and sc.kind == 'main':
            dr = self.data_read(sc)
            return dr if isinstance(dr, list) else [dr]
        return [self.simple(sc)]

    def block(self, sc, n, depth):
        if n > 0 and self.r.random() < 0.04:
            # a body the optimiser may erase completely: x = x
            tys = [t for t in self.num_types if sc.scalars_of(t, writable=True)]
            if tys:
                v = self.r.choice(sc.scalars_of(self.r.choice(tys), writable=True))
                return [{'k': 'let', 'lv': ['var', v], 'e': ['var', v]}]
        out = []
        for _ in range(n):
            out += self.statement(sc, depth)
        return out

    # -- declarations -----------------------------------------------------------

    def make_types(self):
        r = self.r
        if not self.p['records']:
            return
        for i in range(r.randint(1, 2)):
            name = self.fresh('rt')
            fields = []
            # field names come from a small pool: different TYPEs share
            # names, at different offsets and with different types
            pool = ['fa', 'fb', 'fc', 'fd', 'fe', 'fg']
            r.shuffle(pool)
            for j in range(r.randint(1, 4)):
                if self.types and r.random() < 0.3:
                    ft = 'T:' + r.choice(self.types)['name']
                else:
                    ft = r.choice(list(self.num_types) + (['$'] if self.p['strings'] else []))
                fields.append([pool[j], ft])
            self.types.append({'name': name, 'fields': fields})

    def bounds(self):
        r = self.r
        rank = r.choice((1, 1, 1, 2, 2, 3))
        bs = []
        for _ in range(rank):
            if r.random() < 0.5:
                bs.append((0, r.randint(1, 4) if rank < 3 else r.randint(1, 2)))
            else:
                lb = r.randint(-3, 3)
                bs.append((lb, lb + (r.randint(0, 3) if rank < 3 else r.randint(0, 1))))
        return bs

    def dim_array(self, sc, shared=False, allow_dyn=True):
        r = self.r
        if self.types and r.random() < 0.3:
            ty = 'T:' + r.choice(self.types)['name']
            name = self.fresh('ra')
            asform = True
        else:
            ty = r.choice(list(self.num_types) + (['$'] if self.p['strings'] else []))
            asform = r.random() < 0.3
            name = self.fresh('a') if asform else self.fresh('a', ty)
        bs = self.bounds()
        dyn = allow_dyn and self.p['dynarrays'] and r.random() < 0.3
        info = {'ty': ty, 'bounds': bs, 'dyn': dyn}
        pre = []
        pb = []
        for lb, ub in bs:
            ube = ['lit', '%', ub]
            if not dyn and self.p['floats'] and r.random() < 0.08:
                # a constant bound that is not a whole number: it is rounded
                # (half to even) like any conversion to an integer
                ube = ['lit', r.choice('!#'), ub - 0.25 if (ub % 2 or r.random() < 0.5) else ub - 0.5]
            if dyn:
                nv = self.new_scalar(sc, '%')
                pre.append({'k': 'let', 'lv': ['var', nv], 'e': ['lit', '%', ub]})
                ube = ['var', nv]
                dyn_used = True
            if lb == 0 and r.random() < 0.6:
                pb.append([None, ube])
            else:
                pb.append([['lit', '%', lb], ube])
        st = {'k': 'dim', 'shared': shared, 'name': name, 'bounds': pb, 'ty': ty,
              'as': asform}
        if shared:
            self.shared_arrays[name] = info
        else:
            sc.arrays[name] = info
        return pre + [st]

    def implicit_array_first_use(self, sc):
        """An array that is never DIMmed (0 TO 10 in every dimension).  Its
        first use, at the top of the program where it is certain to execute
        first, is an assignment, a PRINT, a READ, an INPUT or a by-reference
        argument."""
        r = self.r
        out = []
        if not self.p['arrays'] or r.random() > 0.35:
            return out
        ty = r.choice(list(self.num_types) + (['$'] if self.p['strings'] else []))
        name = self.fresh('ia', ty)
        rank = r.choice((1, 1, 2))
        sc.arrays[name] = {'ty': ty, 'bounds': [(0, 10)] * rank, 'dyn': False}
        el = ['idx', name, [['lit', '%', r.choice((0, 1, 5, 10))] for _ in range(rank)]]
        kinds = ['let', 'print']
        if self.p['data'] and sc.kind == 'main':
            kinds.append('read')
        if self.p['input']:
            kinds.append('input')
        subs = [q for q in self.callable_procs(sc, 'sub')
                if any(pt == ty and not isarr for _, pt, isarr in q['params'])]
        if subs:
            kinds += ['arg', 'arg']
        k = r.choice(kinds)
        if k == 'let':
            out.append({'k': 'let', 'lv': el, 'e': self.lit(ty)})
        elif k == 'print':
            m = self.next_marker()
            out.append({'k': 'print', 'items': [[['lit', '$', f'<{m}>'], ';'], [el, '']], 'marker': m})
        elif k == 'read':
            self.data_types.append(ty)
            self.data_items.append('abc' if ty == '$' else ('7' if ty in '%&' else '1.5'))
            out.append({'k': 'read', 'lvs': [el]})
        elif k == 'input':
            self.input_specs.append([ty])
            out.append({'k': 'input', 'lvs': [el], 'prompt': None, 'psep': ';', 'semi': False})
        else:
            q = r.choice(subs)
            args = self.call_args(sc, q)
            i = r.choice([i for i, (_, pt, isarr) in enumerate(q['params']) if pt == ty and not isarr])
            args[i] = el
            out.append({'k': 'call', 'name': q['name'], 'args': args, 'style': 'call'})
        m = self.next_marker()
        out.append({'k': 'print', 'items': [[['lit', '$', f'<{m}>'], ';'], [el, '']], 'marker': m})
        return out

    def declarations(self, sc):
        r = self.r
        out = []
        if self.p['consts']:
            for _ in range(r.randint(1, 2)):
                ty = r.choice(list(self.num_types) + (['$'] if self.p['strings'] else []))
                # (without a suffix the constant takes the type of its value,
                # not the type a variable of that name would have)
                n = self.fresh('k', ty) if r.random() < 0.7 else self.fresh('kk')
                e = self.lit(ty)
                if ty != '$' and r.random() < 0.4:
                    e = ['bin', r.choice(('+', '*', '-')), self.lit(ty), self.lit('%')]
                if ty == '&' and name_type(n) is None and r.random() < 0.5:
                    e = ['lit', '&', r.choice((16777217, 2147483647, 100000))]
                out.append({'k': 'const', 'name': n, 'e': e})
                self.global_consts[n] = ty
        if self.p['shared']:
            for _ in range(r.randint(1, 2)):
                x = r.random()
                if x < 0.5:
                    ty = r.choice(list(self.num_types) + (['$'] if self.p['strings'] else []))
                    n = self.fresh('g')
                    out.append({'k': 'dim', 'shared': True, 'name': n, 'bounds': None,
                                'ty': ty, 'as': True})
                    self.shared_vars[n] = ty
                elif x < 0.75 and self.p['arrays']:
                    out += self.dim_array(sc, shared=True, allow_dyn=False)
                elif self.types:
                    n = self.fresh('gr')
                    ty = 'T:' + r.choice(self.types)['name']
                    out.append({'k': 'dim', 'shared': True, 'name': n, 'bounds': None,
                                'ty': ty, 'as': True})
                    self.shared_vars[n] = ty
        if self.p['arrays']:
            for _ in range(r.randint(1, 3)):
                out += self.dim_array(sc)
        if self.p['records'] and self.types:
            for _ in range(r.randint(1, 2)):
                n = self.fresh('r')
                ty = 'T:' + r.choice(self.types)['name']
                out.append({'k': 'dim', 'shared': False, 'name': n, 'bounds': None,
                            'ty': ty, 'as': True})
                sc.vars[n] = ty
        # scalars declared with AS (no suffix): a procedure may declare a
        # local of the same name with another type
        self.as_scalars = []
        if r.random() < self.p.get('as_collide', 0.4):
            for _ in range(r.randint(1, 2)):
                ty = r.choice(self.num_types)
                n = self.fresh('w')
                out.append({'k': 'dim', 'shared': False, 'name': n, 'bounds': None,
                            'ty': ty, 'as': True})
                out.append({'k': 'let', 'lv': ['var', n], 'e': self.lit(ty)})
                sc.vars[n] = ty
                self.as_scalars.append((n, ty))
        # a few scalars of each type, assigned up front
        for ty in list(self.num_types) + (['$'] if self.p['strings'] else []):
            for _ in range(r.randint(1, 2)):
                n = self.new_scalar(sc, ty)
                out.append({'k': 'let', 'lv': ['var', n], 'e': self.lit(ty)})
        return out

    def make_proc_sigs(self):
        """Signatures first (bodies later, so that main can call them)."""
        r = self.r
        if not self.p['procs']:
            return
        for i in range(r.randint(1, 3)):
            kind = r.choice(('sub', 'function'))
            params = []
            arr_rank, arr_bounds = {}, {}
            for j in range(r.randint(0, 3)):
                ty = r.choice(list(self.num_types) + (['$'] if self.p['strings'] else []))
                params.append([self.fresh('p', ty), ty, False])
            if self.types and r.random() < 0.35:
                # a record parameter (always by reference)
                params.insert(r.randint(0, len(params)),
                              [self.fresh('pr'), 'T:' + r.choice(self.types)['name'], False])
            recursive = kind == 'function' and self.p['recursion'] and r.random() < 0.5
            if recursive:
                params.insert(0, [self.fresh('n', '%'), '%', False])
            if kind == 'function':
                rt = r.choice(list(self.num_types) + (['$'] if self.p['strings'] and not recursive else []))
                name = self.fresh('fu', rt)
            else:
                name = self.fresh('sb')
            self.procs.append({'kind': kind, 'name': name, 'params': params,
                               'static': r.random() < 0.2, 'body': [], 'order': i,
                               'recursive': recursive, 'arr_rank': arr_rank,
                               'arr_bounds': arr_bounds})

    def add_array_params(self):
        """After the shared/main arrays exist: give some procs an array param."""
        r = self.r
        main_arrays = dict(self.shared_arrays)
        main_arrays.update(self.main_scope.arrays)
        cands = [(n, i) for n, i in sorted(main_arrays.items())
                 if not i['ty'].startswith('T:') and not i['dyn']]
        if not cands or not self.p['arrays']:
            return
        same = r.choice(cands) if r.random() < 0.5 else None
        for p in self.procs:
            if r.random() < 0.45:
                n, info = same or r.choice(cands)
                pn = self.fresh('pa', info['ty'])
                p['params'].append([pn, info['ty'], True])
                p['arr_rank'][pn] = len(info['bounds'])
                p['arr_bounds'][pn] = [tuple(b) for b in info['bounds']]

    def proc_body(self, p):
        r = self.r
        sc = Scope(self, p['name'])
        sc.env = self.env
        sc.kind = p['kind']
        sc.order = p['order']
        sc.fname = p['name']
        for pn, pty, isarr in p['params']:
            if isarr:
                sc.arrays[pn] = {'ty': pty, 'bounds': [tuple(b) for b in p['arr_bounds'][pn]],
                                 'dyn': False}
            else:
                sc.vars[pn] = pty
        body = []
        if self.p['statics'] and r.random() < 0.6:
            ty = r.choice(self.num_types)
            n = self.fresh('s', ty)
            body.append({'k': 'static', 'name': n, 'ty': ty, 'as': False})
            sc.vars[n] = ty
            body.append({'k': 'let', 'lv': ['var', n],
                         'e': ['bin', '+', ['var', n], ['lit', '%', 1]]})
        if self.p['consts'] and r.random() < 0.4:
            same = [n for n, t in sorted(self.global_consts.items())]
            if same and r.random() < 0.5:
                n = r.choice(same)          # hides the module-level CONST
                ty = self.global_consts[n]
            else:
                ty = r.choice(list(self.num_types) + (['$'] if self.p['strings'] else []))
                n = self.fresh('k', ty)
            body.append({'k': 'const', 'name': n, 'e': self.lit(ty)})
            sc.consts[n] = ty
        if self.p['arrays'] and r.random() < 0.3:
            body += self.dim_array(sc, allow_dyn=False)
        if getattr(self, 'as_scalars', None) and r.random() < max(0.5, self.p.get('as_collide', 0)):
            # a local with the name of a module-level AS-declared variable,
            # of another numeric type where there is one
            n, mty = r.choice(self.as_scalars)
            others = [t for t in self.num_types if t != mty] or [mty]
            ty = r.choice(others)
            body.append({'k': 'dim', 'shared': False, 'name': n, 'bounds': None,
                         'ty': ty, 'as': True})
            body.append({'k': 'let', 'lv': ['var', n], 'e': self.lit(ty)})
            sc.vars[n] = ty
        for ty in self.num_types[:2]:
            n = self.new_scalar(sc, ty)
            body.append({'k': 'let', 'lv': ['var', n], 'e': self.lit(ty)})
        # a parameter is often assigned to: visible to the caller exactly when
        # the argument was passed by reference
        nump = [pn for pn, pty, isarr in p['params'] if not isarr and pty in self.num_types
                and not (p.get('recursive') and pn == p['params'][0][0])]
        if nump and r.random() < 0.5:
            pn = r.choice(nump)
            body.append({'k': 'let', 'lv': ['var', pn],
                         'e': ['bin', '+', ['var', pn], ['lit', '%', r.choice((1, 2, 5))]]})
        save = self.stmt_budget
        self.stmt_budget = r.randint(2, 6)
        if p.get('recursive'):
            nv = p['params'][0][0]
            rt = name_type(p['name'])
            inner = self.block(sc, r.randint(0, 2), 1)
            rec = ['call', p['name'], [['bin', '-', ['var', nv], ['lit', '%', 1]]] +
                   self.call_args(sc, {'params': p['params'][1:], 'arr_rank': p['arr_rank'],
                                       'arr_bounds': p['arr_bounds']})]
            base = self.lit(rt)
            stepe = ['bin', '+', rec, self.lit('%')]
            body.append({'k': 'if', 'arms': [[['bin', '<=', ['var', nv], ['lit', '%', 0]],
                                              [{'k': 'let', 'lv': ['var', p['name']], 'e': base}]]],
                         'els': inner + [{'k': 'let', 'lv': ['var', p['name']], 'e': stepe}]})
        else:
            body += self.block(sc, r.randint(1, 4), min(self.p['depth'], 2))
            if p['kind'] == 'function':
                rt = name_type(p['name'])
                e = self.str_expr(sc, 1) if rt == '$' else self.num_expr(sc, 1, RANK[rt])
                if r.random() < 0.3:
                    body.append({'k': 'ifl', 'cond': self.cond(sc, 1),
                                 'then': [{'k': 'let', 'lv': ['var', p['name']], 'e': self.lit(rt)},
                                          {'k': 'exit', 'what': 'function'}], 'els': None})
                body.append({'k': 'let', 'lv': ['var', p['name']], 'e': self.bounded(e, sc)})
            elif r.random() < 0.3:
                first = 1 + max([i for i, b in enumerate(body)
                                 if b['k'] in ('dim', 'static', 'const')] + [-1])
                body.insert(r.randint(first, len(body)),
                            {'k': 'ifl', 'cond': self.cond(sc, 1),
                             'then': [{'k': 'exit', 'what': 'sub'}], 'els': None})
        if p['arr_rank'] and r.random() < 0.6:
            # pass the array parameter on to another procedure, and touch an
            # element afterwards
            c = self.call_stmt(sc) or self.func_call_stmt(sc)
            if c is not None:
                at = len(body) - (1 if p['kind'] == 'function' else 0)
                body.insert(max(at, 0), c)
        if self.p['family'] == 'any' and self.p['gosub'] and r.random() < 0.3:
            # a GOSUB subroutine local to the procedure; it ends with RETURN,
            # or leaves the whole procedure from inside the subroutine
            lab = self.fresh('lg')
            m = self.next_marker()
            pr = {'k': 'print', 'marker': m, 'items': [[['lit', '$', f'<{m}>'], '']]}
            leave = {'k': 'exit', 'what': 'sub' if p['kind'] == 'sub' else 'function'}
            tail = [{'k': 'gosub', 'label': lab}]
            if r.random() < 0.5:
                tail.append({'k': 'gosub', 'label': lab})
            tail += [dict(leave), {'k': 'label', 'name': lab}, pr,
                     dict(leave) if r.random() < 0.5 else {'k': 'return'}]
            if p['kind'] == 'function':
                # keep the assignment of the result in front
                body = body + tail
            else:
                body = body + tail
        self.stmt_budget = save
        p['body'] = body

    # -- planted run-time errors (fault kind F6) ---------------------------------

    PLANT_KINDS = ('div0_idiv', 'div0_mod', 'div0_fdiv', 'ovf_int', 'ovf_long',
                   'ovf_conv', 'ovf_mul', 'ovf_neg', 'ovf_sngband', 'subscript', 'ill_chr',
                   'ill_chr_hi', 'ill_asc', 'ill_mid', 'ill_space', 'ill_string',
                   'ill_left', 'ill_instr', 'out_of_data', 'bad_data', 'data_ovf', 'div0_dyndim', 'subscript_dynbounds', 'nogosub_return')
    PLANT_TRAP = {'div0': 'DIVISION_BY_ZERO', 'ovf': 'INVALID_CELL_VALUE',
                  'subscript': 'INDEX_OUT_OF_RANGE', 'ill': 'INVALID_OPERAND_VALUE',
                  'nogosub': 'RETURN_WITHOUT_GOSUB',
                  'out': 'DEVICE_ERROR', 'bad': 'DEVICE_ERROR', 'data': 'INVALID_CELL_VALUE'}

    def plant(self, sc, kind=None, fold=None, depth=None, form=None):
        """Returns (setup statements, failing statement).  With fold=False the
        operands arrive through variables so that the compiler cannot fold
        them; with fold=True they are literals and meet the constant folder."""
        r = self.r
        kinds = [k for k in self.PLANT_KINDS
                 if (k not in ('out_of_data', 'bad_data', 'data_ovf') or not self.data_items)
                 and (k != 'div0_dyndim' or self.p.get('onerror_mode') in ('goto_next', 'resume_next'))
                 and (k != 'subscript_dynbounds' or self.p.get('onerror_mode') != 'goto_resume' or True)
                 and (self.p['strings'] or not k.startswith('ill_') or k in ('ill_chr', 'ill_chr_hi'))]
        kind = kind or r.choice(kinds)
        fold = (r.random() < 0.3) if fold is None else fold
        depth = r.randint(0, 3) if depth is None else depth
        pre = []

        repairs = []
        GOOD = {0: 1, 32767: 0, 1: 0, 2147483647: 0, 40000: 4, 20000: 1, 2: 1, -1: 1,
                256: 65, '': 'A', -2: 2, 4: 2, 100: 2, 3.40282357e38: 1.5,
                3.4028235677973366e38: 1.5, 3.4028236e38: 1.5, -3.40282357e38: 1.5}

        def operand(ty, value):
            if fold:
                return ['lit', ty, value]
            n = self.fresh('z', ty)
            sc.vars[n] = ty
            sc.frozen.add(n)
            pre.append({'k': 'let', 'lv': ['var', n], 'e': ['lit', ty, value]})
            repairs.append({'k': 'let', 'lv': ['var', n], 'e': ['lit', ty, GOOD.get(value, 1)]})
            return ['var', n]

        ty = '%'
        self.post_plant = []
        if kind == 'nogosub_return':
            # RETURN while no GOSUB is pending (module-level code in front of END)
            self.last_repairs = None
            return pre, {'k': 'return', 'plant': kind}
        if kind == 'subscript_dynbounds':
            # a dynamic array whose run-time bounds are inverted in the first,
            # a middle or the last dimension
            an = self.fresh('dq', '%')
            fold = False       # literal bounds would make it a static array
            rank = r.choice((1, 2, 2, 3))
            bad_dim = r.randrange(rank)
            bs = []
            for d_ in range(rank):
                if d_ == bad_dim:
                    bs.append([['lit', '%', 5], operand('%', r.choice((2, 4, -1)))])
                else:
                    bs.append([['lit', '%', 1], ['lit', '%', r.randint(1, 3)]])
            st = {'k': 'dim', 'shared': False, 'name': an, 'ty': '%', 'as': False,
                  'bounds': bs, 'plant': kind}
            GOOD.update({2: 6, 4: 6, -1: 6})
            repairs[:] = [{'k': 'let', 'lv': rp_['lv'], 'e': ['lit', '%', 6]} for rp_ in repairs]
            self.last_repairs = repairs[-1:] if repairs else None
            return pre, st
        if kind == 'div0_dyndim':
            # the DIM of a dynamic array fails while its bound is computed; the
            # array is used afterwards (reached only when the error is handled)
            an = self.fresh('dq', '%')
            st = {'k': 'dim', 'shared': False, 'name': an, 'ty': '%', 'as': False,
                  'bounds': [[None, ['bin', '\\', ['lit', '%', 7], operand('%', 0)]]],
                  'plant': kind}
            m = self.next_marker()
            self.post_plant = [{'k': 'let', 'lv': ['idx', an, [['lit', '%', 1]]], 'e': ['lit', '%', 3]},
                               {'k': 'print', 'marker': m,
                                'items': [[['lit', '$', f'<{m}>'], ';'], [['idx', an, [['lit', '%', 1]]], '']]}]
            self.last_repairs = repairs[-1:] if repairs else None
            return pre, st
        if kind == 'div0_idiv':
            e = ['bin', '\\', ['lit', '%', 7], operand('%', 0)]
        elif kind == 'div0_mod':
            e = ['bin', 'mod', ['lit', '%', 7], operand('%', 0)]
        elif kind == 'div0_fdiv':
            e = ['bin', '/', ['lit', '%', 7], operand('%', 0)]
            ty = '!'
        elif kind == 'ovf_int':
            e = ['bin', '+', operand('%', 32767), operand('%', 1)]
        elif kind == 'ovf_long':
            e = ['bin', '+', operand('&', 2147483647), operand('&', 1)]
            ty = '&'
        elif kind == 'ovf_conv':
            e = ['fn', 'cint', [operand('&', 40000)]]
        elif kind == 'ovf_sngband':
            # a DOUBLE just above the largest SINGLE: it rounds to infinity in
            # single precision (first such value is 2^128 - 2^103), assigned
            # to a SINGLE variable
            e = operand('#', r.choice((3.40282357e38, 3.4028235677973366e38, 3.4028236e38, -3.40282357e38)))
            ty = '!'
            form = 'let'
        elif kind == 'ovf_mul':
            e = ['bin', '*', operand('%', 20000), operand('%', 2)]
        elif kind == 'ovf_neg':
            e = ['bin', '-', ['bin', '-', ['lit', '%', -32767], operand('%', 1)], operand('%', 1)]
        elif kind == 'subscript':
            an = self.fresh('pa', '%')
            sc.arrays[an] = {'ty': '%', 'bounds': [(1, 3)], 'dyn': False}
            pre.append({'k': 'dim', 'shared': False, 'name': an,
                        'bounds': [[['lit', '%', 1], ['lit', '%', 3]]], 'ty': '%', 'as': False})
            e = ['idx', an, [operand('%', r.choice((0, 4, -1, 100)))]]
        elif kind == 'ill_chr':
            e = ['fn', 'len', [['fn', 'chr$', [operand('%', -1)]]]]
            ty = '&'
        elif kind == 'ill_chr_hi':
            e = ['fn', 'len', [['fn', 'chr$', [operand('%', 256)]]]]
            ty = '&'
        elif kind == 'ill_asc':
            e = ['fn', 'asc', [operand('$', '')]]
        elif kind == 'ill_mid':
            e = ['fn', 'len', [['fn', 'mid$', [['lit', '$', 'abc'], operand('%', 0)]]]]
            ty = '&'
        elif kind == 'ill_space':
            e = ['fn', 'len', [['fn', 'space$', [operand('%', -1)]]]]
            ty = '&'
        elif kind == 'ill_string':
            e = ['fn', 'len', [['fn', 'string$', [operand('%', -2), ['lit', '$', 'x']]]]]
            ty = '&'
        elif kind == 'ill_left':
            e = ['fn', 'len', [['fn', r.choice(('left$', 'right$')),
                                [['lit', '$', 'abc'], operand('%', -1)]]]]
            ty = '&'
        elif kind == 'ill_instr':
            e = ['fn', 'instr', [operand('%', 0), ['lit', '$', 'abc'], ['lit', '$', 'b']]]
            ty = '&'
        elif kind in ('out_of_data', 'bad_data', 'data_ovf'):
            n = self.fresh('z', '%')
            sc.vars[n] = '%'
            if kind == 'bad_data':
                self.data_items.append('abc')
            if kind == 'data_ovf':
                self.data_items.append(r.choice(('70000', '-32769', '3000000000')))
            st = {'k': 'read', 'lvs': [['var', n]], 'plant': kind}
            self.planted_data = True
            self.last_repairs = None
            return pre, st
        # bury the failing sub-expression `depth` levels deep, with operands
        # pending on the stack in front of it
        for d in range(depth):
            x = r.random()
            if x < 0.5:
                e = ['bin', r.choice(('+', '-')), ['lit', '%', r.randint(1, 9)], ['par', e]]
            elif x < 0.8:
                e = ['bin', '*', ['par', e], ['lit', '%', 1]]
            else:
                e = ['fn', 'abs', [e]]
        if form is None and kind != 'ovf_sngband':
            form = r.choice(('let', 'let', 'print', 'cond', 'let', 'print', 'elseif', 'case', 'loop'))
        form = form or 'let'
        t = self.fresh('t', ty)
        sc.vars[t] = ty
        part = None
        if form in ('elseif', 'case', 'loop') and ty in '%&!#':
            # the failing expression sits on a line of a block statement that
            # is not its first: an ELSEIF condition, a CASE test, a LOOP UNTIL
            m1 = self.print_stmt(sc, 0)
            m2 = self.print_stmt(sc, 0)
            if form == 'elseif':
                st = {'k': 'if', 'arms': [[['bin', '=', ['lit', '%', 1], ['lit', '%', 2]], [m1]],
                                          [['bin', '>', e, ['lit', '%', 0]], [m2]]],
                      'els': [self.print_stmt(sc, 0)] if r.random() < 0.5 else None}
                part = 'arm1'
            elif form == 'case':
                tests = [['eq', e], ['eq', ['lit', '%', 5]]]
                k = r.random()
                if k < 0.35:
                    tests.reverse()
                elif k < 0.7:
                    tests = [['eq', e]]        # a CASE line with a single test
                st = {'k': 'select', 'e': ['lit', '%', r.choice((5, 6))],
                      'cases': [[[['eq', ['lit', '%', 99]]], [m1]], [tests, [m2]]],
                      'els': [self.print_stmt(sc, 0)] if r.random() < 0.5 else None}
                part = 'case1'
            else:
                st = {'k': 'do', 'pre': None, 'body': [m1],
                      'post': ['until', ['bin', '>=', e, ['lit', '%', -30000]]]}
                part = 'loop'
        elif form == 'let' or form in ('elseif', 'case', 'loop'):
            st = {'k': 'let', 'lv': ['var', t], 'e': e}
        elif form == 'print':
            m = self.next_marker()
            st = {'k': 'print', 'items': [[['lit', '$', f'<{m}>'], ';'], [['lit', '%', 1], ';'], [e, '']],
                  'marker': m}
        else:
            st = {'k': 'if', 'arms': [[['bin', '>', e, ['lit', '%', 0]],
                                       [self.print_stmt(sc, 0)]]], 'els': None}
        st['plant'] = kind
        if part:
            st['plant_part'] = part
        # making the last operand harmless lets the statement succeed when it
        # is executed again (RESUME); literal operands cannot be repaired
        self.last_repairs = repairs[-1:] if (repairs and kind != 'ovf_neg') else \
            (repairs if repairs else None)
        return pre, st

    # -- whole program ----------------------------------------------------------

    def program(self):
        r = self.r
        self.make_types()
        self.env = TypeEnv({'types': self.types, 'procs': []})
        self.make_proc_sigs()
        sc = self.main_scope = Scope(self, '_main')
        sc.env = self.env
        sc.order = 10**6
        main = []
        onerr = self.p['onerror_mode']
        hl = None
        main += self.declarations(sc)
        n_decl = len(main)
        self.add_array_params()
        main += self.implicit_array_first_use(sc)
        # a parameter may have the name of a DIM SHARED variable: inside the
        # procedure the name means the parameter
        shared_scalars = [(n, t) for n, t in sorted(self.shared_vars.items()) if t in '%&!#$']
        if shared_scalars and self.procs and r.random() < 0.3:
            n, t = r.choice(shared_scalars)
            p = r.choice(self.procs)
            cand = [q for q in p['params'] if not q[2] and q[1] == t
                    and not (p.get('recursive') and q is p['params'][0])]
            if cand:
                r.choice(cand)[0] = n
        if onerr in ('goto_next', 'goto_end', 'goto_resume', 'goto_reraise', 'goto_return'):
            hl = self.fresh('hnd')
            main.append({'k': 'onerr', 'mode': 'goto', 'label': hl})
        elif onerr == 'resume_next':
            main.append({'k': 'onerr', 'mode': 'next'})
        # gosub routines are generated after main but their labels are known
        subs = []
        if self.p['gosub']:
            for _ in range(r.randint(1, 2)):
                subs.append(self.fresh('gs'))
            sc.gosubs = list(subs)
        body = []
        while self.stmt_budget > 0:
            body += self.statement(sc, self.p['depth'])
        if self.p['goto'] and len(body) > 3:
            # forward GOTO over a few top-level statements
            i = r.randint(0, len(body) - 2)
            j = r.randint(i + 1, len(body))
            lab = self.fresh('lb')
            g = {'k': 'goto', 'label': lab}
            if r.random() < 0.6:
                g = {'k': 'ifl', 'cond': self.cond(sc, 1), 'then': [g], 'els': None}
            body.insert(j, {'k': 'label', 'name': lab})
            if self.p['family'] == 'any' and r.random() < 0.3:
                # a static array whose DIM is jumped over and that is used
                # afterwards (QBASIC allocates it at compile time)
                an = self.fresh('la', '%')
                body.insert(j + 1, {'k': 'multi', 'stmts': [
                    {'k': 'let', 'lv': ['idx', an, [['lit', '%', 2]]], 'e': ['lit', '%', 5]},
                    {'k': 'print', 'items': [[['idx', an, [['lit', '%', 2]]], '']]}]})
                body.insert(j, {'k': 'dim', 'shared': False, 'name': an,
                                'bounds': [[['lit', '%', 1], ['lit', '%', 3]]], 'ty': '%', 'as': False})
            body.insert(i, g)
        if self.p['family'] == 'any' and self.p['goto'] and r.random() < 0.15:
            # a label inside a block that never executes by itself (IF 0 THEN),
            # reached by a forward GOTO from in front of the block
            lab = self.fresh('lb')
            m = self.next_marker()
            zero = r.choice((['lit', '%', 0], ['bin', '=', ['lit', '%', 1], ['lit', '%', 2]],
                             ['bin', '-', ['lit', '%', 1], ['lit', '%', 1]]))
            blk = {'k': 'if', 'arms': [[zero, [{'k': 'label', 'name': lab},
                                                {'k': 'print', 'marker': m,
                                                 'items': [[['lit', '$', f'<{m}>'], '']]}]]],
                   'els': None}
            g = {'k': 'goto', 'label': lab}
            if r.random() < 0.5:
                g = {'k': 'ifl', 'cond': self.cond(sc, 1), 'then': [g], 'els': None}
            i = r.randint(0, len(body))
            body[i:i] = [g, blk]
        self.plants = []
        all_repairs = []
        nplants = self.p.get('plants', 1 if self.p['plant'] else 0)
        for _ in range(nplants):
            kind = None
            if onerr == 'goto_resume':
                kind = r.choice([k for k in self.PLANT_KINDS if k not in ('out_of_data', 'bad_data', 'data_ovf',
                                                                          'nogosub_return')])
            pre, st = self.plant(sc, kind=kind, fold=False if onerr == 'goto_resume' else None,
                                 form=r.choice(('let', 'let', 'print', 'let', 'print', 'cond', 'elseif',
                                                'case', 'loop')) if self.p.get('plants') else None)
            site = body
            if self.p.get('plants') and r.random() < 0.5:
                # inside a nested block or on a multi-statement line
                sites = []

                def walk(b):
                    for x in b:
                        if x['k'] == 'multi' and st['k'] in ('let', 'print'):
                            sites.append(x['stmts'])
                        for sub in sub_bodies(x):
                            if x['k'] not in ('multi', 'ifl'):
                                sites.append(sub)
                                walk(sub)
                walk(body)
                if sites:
                    site = r.choice(sites)
            i = r.randint(0, len(site))
            if st['k'] == 'read' and st['plant'] == 'out_of_data':
                site, i = body, len(body)
            site.insert(i, st)
            for j, ps in enumerate(getattr(self, 'post_plant', None) or []):
                site.insert(i + 1 + j, ps)
            # set-up goes to the very front: a GOTO must not skip a DIM (a
            # static array whose DIM never executed is outside the subset) -
            # except, in the 'any' family, now and then
            late = self.p['family'] == 'any' and r.random() < 0.2
            for q in reversed(pre):
                body.insert(r.randint(0, i) if late else 0, q)
            self.planted = st
            self.plants.append(st)
            if self.last_repairs:
                all_repairs += self.last_repairs
        if subs and r.random() < 0.5:
            # every routine is called at least once from the top level
            for lab in subs:
                body.insert(r.randint(0, len(body)), {'k': 'gosub', 'label': lab})
        main += body
        if onerr and r.random() < 0.3:
            main.append({'k': 'onerr', 'mode': 'off'})
            main.append(self.print_stmt(sc, 1))
        fin = None
        if subs and r.random() < 0.5:
            fin = self.fresh('fin')
            main.append({'k': 'label', 'name': fin})
        main.append(self.print_stmt(sc, 2))
        main.append({'k': 'end'})
        if r.random() < 0.3:
            # unreachable statements after END (before the first label)
            self.stmt_budget = 2
            main += [self.print_stmt(sc, 1)] + ([self.assign(sc)] if r.random() < 0.5 else [])
        for i, lab in enumerate(subs):
            sc.gosubs = subs[:i]     # a routine may only call earlier ones
            self.stmt_budget = r.randint(1, 3)
            main.append({'k': 'label', 'name': lab})
            if r.random() < 0.25:
                # a routine that GOSUBs itself (two levels deep, the first
                # time it is entered)
                gq = self.fresh('gq', '%')
                sc.vars[gq] = '%'
                sc.frozen.add(gq)
                main.append({'k': 'let', 'lv': ['var', gq],
                             'e': ['bin', '+', ['var', gq], ['lit', '%', 1]]})
                main.append({'k': 'ifl', 'cond': ['bin', '<', ['var', gq], ['lit', '%', 3]],
                             'then': [{'k': 'gosub', 'label': lab}], 'els': None})
            main += self.block(sc, r.randint(1, 3), 1)
            if self.procs and r.random() < 0.4:
                # a procedure called while the GOSUB is pending (an error in it
                # reaches the handler with a return address below the call)
                self.stmt_budget = 2
                c = self.call_stmt(sc)
                if c is not None:
                    main.append(c)
            if i == len(subs) - 1 and not hl and not self.data_items and r.random() < 0.15:
                # the last routine runs into the end of the program instead of
                # RETURNing (legal: the program just ends)
                self.no_return = True
            elif fin and r.random() < 0.3:
                # RETURN <label>: always forward, to the tail of the program
                main.append({'k': 'ifl', 'cond': self.cond(sc, 1),
                             'then': [{'k': 'return', 'label': fin}], 'els': None})
                main.append({'k': 'return'})
            else:
                main.append({'k': 'return'})
        if hl:
            main.append({'k': 'label', 'name': hl})
            m = self.next_marker()
            main.append({'k': 'print', 'items': [[['lit', '$', f'<E{m}>'], ';'],
                                                 [['dev', 'err', []], '']], 'marker': m})
            if self.procs and r.random() < 0.35:
                # the handler calls a procedure before it resumes
                self.stmt_budget = 2
                c = self.call_stmt(sc) if r.random() < 0.6 else self.func_call_stmt(sc)
                if c is not None:
                    main.append(c)
            if onerr == 'goto_next':
                main.append({'k': 'resume', 'next': True})
            elif onerr == 'goto_resume':
                main += all_repairs
                main.append({'k': 'resume', 'next': False})
            elif onerr == 'goto_reraise':
                main.append({'k': 'onerr', 'mode': 'off'})
                main.append({'k': 'end'})
            elif onerr == 'goto_return':
                # a handler that never resumes: it RETURNs (from the GOSUB
                # routine the error happened in, if there is one)
                main.append({'k': 'return'})
            else:
                main.append({'k': 'end'})
        if self.data_items:
            lab = None
            i = 0
            while i < len(self.data_items):
                n = r.randint(1, 4)
                # a DATA statement starts at every RESTORE <label> target
                for k in sorted(self.restore_labels, reverse=True):
                    if i < k < i + n:
                        n = k - i
                if i in self.restore_labels:
                    main.append({'k': 'label', 'name': self.restore_labels[i]})
                main.append({'k': 'data', 'items': self.data_items[i:i + n]})
                i += n
        for p in self.procs:
            self.proc_body(p)
        deftypes = None
        if self.p.get('deftype'):
            # DEFtype letter ranges (DEFINT N-P, DEFLNG S-V ...) that start
            # or end on one of the generator's name stems
            deftypes = {}
            tys = self.num_types + (['$'] if self.p['strings'] else [])
            for lo, hi in (('n', 'p'), ('s', 't'), ('v', 'z')):
                k = r.random()
                if k < 0.35:
                    t = r.choice(tys)
                    for c in range(ord(lo), ord(hi) + 1):
                        deftypes[chr(c)] = t
                elif k < 0.7:
                    for c in (lo, hi):
                        if r.random() < 0.6:
                            deftypes[c] = r.choice(tys)
        procs_at = None
        if self.procs and r.random() < self.p.get('procs_mid', 0.12):
            # SUB / FUNCTION definitions written in the middle of the
            # module-level code (after the declarations)
            procs_at = r.randint(n_decl, len(main))
        join = None
        if r.random() < self.p.get('join', 0.25):
            join = {'seed': r.randint(0, 10 ** 9), 'p': r.choice((0.1, 0.25, 0.5, 0.9))}
        prog = {'tabs': r.random() < 0.2, 'deftypes': deftypes, 'procs_at': procs_at, 'join': join, 'strip_single': bool(self.p.get('deftype')) and r.random() < 0.6,
                'types': self.types, 'main': main,
                'procs': [{k: v for k, v in p.items()
                           if k in ('kind', 'name', 'params', 'static', 'body')}
                          for p in self.procs]}
        number_stmts(prog)
        return prog


def gen_program(r, prof):
    g = Gen(r, prof)
    prog = g.program()
    meta = {'input_specs': g.input_specs, 'n_data': len(g.data_items),
            'markers': g.marker}
    def pid(x):
        return f"{x['id']}.{x['plant_part']}" if x.get('plant_part') else x['id']
    meta['plants'] = [{'id': pid(x), 'kind': x['plant'],
                       'trap': Gen.PLANT_TRAP[x['plant'].split('_')[0]]}
                      for x in getattr(g, 'plants', [])]
    st = getattr(g, 'planted', None)
    if st is not None:
        k = st['plant']
        meta['plant'] = {'id': pid(st), 'kind': k,
                         'trap': Gen.PLANT_TRAP[k.split('_')[0]]}
    return prog, meta


def gen_script(r, meta=None, prof=None):
    """Device script: response lines, keys, RNG values, clock deltas."""
    lines = []
    for tys in (meta or {}).get('input_specs', []):
        for rep in range(8):     # the statement may execute in a loop
            fs = []
            for t in tys:
                if t == '$':
                    fs.append(r.choice(('abc', ' hi ', 'x y', '')))
                elif t in '%&':
                    fs.append(str(r.randint(-50, 99)))
                else:
                    fs.append(r.choice(('1.5', '-0.25', '3', '10.75')))
            lines.append(','.join(fs))
    return {
        'input_lines': lines,
        'inkey': [r.choice(('', '', 'a', 'q', '\r', chr(27), '\x00H')) for _ in range(r.randint(0, 6))],
        'rnd': [r.choice((0.0, 0.25, 0.5, 0.75, 0.125, 0.99999994, 0.3125))
                for _ in range(r.randint(1, 6))],
        'clock0': r.choice((0.0, 3600.0, 43200.5, 86399.0, 86399.75)),
        'deltas': [r.choice((0.0, 0.25, 1.0, 0.0, 0.5, 60.0, 7200.0, -1.0))
                   for _ in range(r.randint(1, 6))],
        'peek': [r.randint(0, 255) for _ in range(r.randint(1, 4))],
    }


# ---------------------------------------------------------------------------
# constant-heavy profile (C02): constant expressions over every operator and
# operand-type pair with boundary values, placed where the compiler evaluates
# them itself (CONST, static array bounds, folded PRINT items and conditions)

BOUNDARY = {
    '%': (0, 1, -1, 2, 3, 7, 255, 256, 32767, -32767, 32766, 100, -8),
    '&': (0, 1, -1, 2, 65535, 65536, 32768, -32769, 2147483647, -2147483647, 40000, 100000,
          16777216, 16777217, 33554433),
    '!': (0.0, 0.5, -0.5, 1.5, 2.5, 3.5, -1.5, -2.5, 1.0, 16777216.0, 0.25, 32767.5, 65536.0,
          10000000000.0, 0.1, 0.3, 2.675, 1.1, 33554432.0),
    '#': (0.0, 0.5, -0.5, 1.5, 2.5, -2.5, 1.0, 4294967296.0, 0.125, 32767.5, -32768.5,
          2147483647.5, 1000000000000.0, 0.1, 0.3, 2.675, 16777217.0),
}
C_OPS = ('+', '-', '*', '/', '\\', 'mod', 'and', 'or', 'xor', 'eqv', 'imp',
         '=', '<>', '<', '>', '<=', '>=')


NEAR = (
    (('&', 16777217), ('!', 16777216.0)), (('%', 32767), ('!', 32767.5)),
    (('&', 2147483647), ('#', 2147483647.5)), (('!', 0.1), ('#', 0.1)),
    (('&', 33554433), ('!', 33554432.0)), (('%', 3), ('!', 2.5)), (('%', 2), ('#', 2.5)),
    (('&', 16777217), ('#', 16777217.0)), (('!', 0.3), ('#', 0.3)), (('&', 65536), ('!', 65536.0)),
)


def str_pair(r):
    """Two string constants to compare; often one is a prefix of the other,
    continued by a character that sorts below or above letters, digits and
    the quote character."""
    if r.random() < 0.6:
        stem = r.choice(('a', 'ab', '1.2', 'B', '', 'a!'))
        a = stem
        b = stem + r.choice((' ', '!', ' x', '!x', '#', 'z', '~', '0', ' beta', 'A'))
    else:
        a, b = r.choice(('', 'a', 'B', 'ab', 'b', 'A', 'abc')), r.choice(('', 'a', 'B', 'ab', 'abd'))
    if r.random() < 0.5:
        a, b = b, a
    return ['lit', '$', a], ['lit', '$', b]


def const_expr(r, depth, strings=False, vars=()):
    if depth > 0 and r.random() < 0.1:
        # two values that are neighbours across types, compared (first, so
        # that no other form crowds it out)
        a, b = r.choice(NEAR)
        if r.random() < 0.5:
            a, b = b, a
        return ['bin', r.choice(CMP), ['lit', a[0], a[1]], ['lit', b[0], b[1]]]
    if vars and strings and depth > 0 and r.random() < 0.1:
        # variable AND/OR a comparison of two string constants: not constant
        # as a whole, so only the peephole pass can fold the comparison
        a, b = str_pair(r)
        return ['bin', r.choice(('and', 'or', 'and', 'xor')), ['var', r.choice(vars)],
                ['bin', r.choice(CMP), a, b]]
    if vars and depth > 0 and r.random() < 0.2:
        # a chain variable +/- constant +/- constant (left to right): the first
        # step alone may overflow where the sum of the constants would not
        v = ['var', r.choice(vars)]
        ty = name_type(v[1]) if name_type(v[1]) in ('%', '&') and r.random() < 0.8 else r.choice('%&')
        c1 = r.choice((2, 100, 10000, 32767, 1))
        c2 = r.choice((c1, c1, 2, min(c1 + 1, 32767)))
        o1, o2 = r.choice((('+', '-'), ('-', '+'), ('+', '-'), ('-', '+'), ('+', '+'), ('-', '-')))
        return ['bin', o2, ['bin', o1, v, ['lit', ty, c1]], ['lit', ty, c2]]
    if vars and r.random() < 0.3:
        v = ['var', r.choice(vars)]
        x = r.random()
        if x < 0.25:
            # double negation / double NOT of a variable (run-time code that
            # only the peephole pass can touch)
            op = r.choice(('neg', 'neg', 'not'))
            return ['un', op, ['un', op, v]]
        if depth <= 0 or x < 0.6:
            return v
        # (the constant operand may be a comparison of two string constants:
        # inside a non-constant expression only the peephole pass can fold it)
        return ['bin', r.choice(C_OPS), v, const_expr(r, depth - 1, strings and r.random() < 0.5, vars)]
    if depth > 0 and r.random() < 0.12:
        # two values that are neighbours across types, compared
        a, b = r.choice(NEAR)
        if r.random() < 0.5:
            a, b = b, a
        return ['bin', r.choice(CMP), ['lit', a[0], a[1]], ['lit', b[0], b[1]]]
    if strings and r.random() < 0.15:
        a = ['lit', '$', r.choice(('', 'a', 'B', 'ab', 'b', 'A'))]
        if depth > 0 and r.random() < 0.5:
            b = ['lit', '$', r.choice(('', 'a', 'B', 'ab'))]
            if r.random() < 0.4:
                # one string is a prefix of the other, followed by a character
                # that sorts below or above a letter, a digit or a quote
                stem = r.choice(('a', 'ab', '1.2', 'B', ''))
                a = ['lit', '$', stem]
                b = ['lit', '$', stem + r.choice((' ', '!', ' x', '!x', '#', 'z', '~', '0'))]
                if r.random() < 0.5:
                    a, b = b, a
            if r.random() < 0.5:
                return ['bin', r.choice(CMP), a, b]
            return ['fn', 'len', [['bin', '+', a, b]]]
        return ['fn', 'len', [a]]
    if depth > 0 and r.random() < 0.06:
        # the type minima have no literal: (-32767 - 1), (-2147483647& - 1&)
        ty = r.choice('%&')
        return ['par', ['bin', '-', ['lit', ty, -32767 if ty == '%' else -2147483647], ['lit', ty, 1]]]
    if depth <= 0 or r.random() < 0.25:
        ty = r.choice('%&!#')
        return ['lit', ty, r.choice(BOUNDARY[ty])]
    x = r.random()
    if x < 0.12:
        return ['un', r.choice(('neg', 'not')), const_expr(r, depth - 1, strings, vars)]
    if x < 0.18:
        return ['par', const_expr(r, depth - 1)]
    if x < 0.24:
        arg = const_expr(r, depth - 1)
        if r.random() < 0.3:
            ty = r.choice('%&')
            arg = ['bin', '-', ['lit', ty, -32767 if ty == '%' else -2147483647], ['lit', ty, 1]]
        return ['fn', r.choice(('abs', 'cint', 'clng', 'int')), [arg]]
    return ['bin', r.choice(C_OPS), const_expr(r, depth - 1, strings, vars), const_expr(r, depth - 1, strings, vars)]


def const_program(r):
    """A small program whose interesting values are computed by the compiler."""
    main = []
    n = [0]

    def fresh(stem, ty=''):
        n[0] += 1
        return f'{stem}{n[0]}{ty}'
    handler = r.random() < 0.35
    if handler:
        main.append({'k': 'onerr', 'mode': 'next'})
    consts = []
    vars_ = []
    if r.random() < 0.5:
        # variables holding boundary values, incl. the type minima that have
        # no literal (-32767 - 1)
        for _ in range(r.randint(1, 3)):
            ty = r.choice('%&!#')
            nm = fresh('b', ty)
            if ty in '%&' and r.random() < 0.3:
                # the largest value of the type: one more step overflows
                e0 = ['lit', ty, 32767 if ty == '%' else 2147483647]
            elif ty in '%&' and r.random() < 0.4:
                e0 = ['bin', '-', ['lit', ty, -32767 if ty == '%' else -2147483647], ['lit', '%', 1]]
            else:
                e0 = ['lit', ty, r.choice(BOUNDARY[ty])]
            main.append({'k': 'let', 'lv': ['var', nm], 'e': e0})
            vars_.append(nm)
    for _ in range(r.randint(1, 4)):
        form = r.choice(('print', 'print', 'const', 'let', 'if', 'dim', 'select', 'for', 'chain'))
        if form == 'chain':
            # a variable at the end of its range, then +c -c' (or -c +c'): the
            # first step overflows although the constants nearly cancel
            ty = r.choice('%&')
            top = r.random() < 0.5
            nm = fresh('bm', ty)
            big = 32767 if ty == '%' else 2147483647
            main.append({'k': 'let', 'lv': ['var', nm],
                         'e': ['lit', ty, big] if top else
                         ['bin', '-', ['lit', ty, -big], ['lit', '%', 1]]})
            c1 = r.choice((2, 100, 10000))
            c2 = r.choice((c1, c1, c1 - 1, c1 + 1, 2))
            e = ['bin', '-' if top else '+', ['bin', '+' if top else '-', ['var', nm], ['lit', ty, c1]],
                 ['lit', ty, c2]]
            if r.random() < 0.5:
                main.append({'k': 'print', 'items': [[['lit', '$', f'<{len(main)}>'], ';'], [e, '']]})
            else:
                v2 = fresh('v', ty)
                main.append({'k': 'let', 'lv': ['var', v2], 'e': e})
                main.append({'k': 'print', 'items': [[['lit', '$', f'<{len(main)}>'], ';'], [['var', v2], '']]})
            continue
        ev = vars_ if form in ('print', 'let', 'if') else ()
        e = const_expr(r, r.choice((1, 1, 2, 2, 3)), strings=True, vars=ev)
        if paren_depth(e) > 3:
            e = const_expr(r, 1)
        if form == 'print':
            items = [[['lit', '$', f'<{len(main)}>'], ';'], [e, ';'],
                     [const_expr(r, 1), '']]
            main.append({'k': 'print', 'items': items})
        elif form == 'const':
            ty = r.choice('%&!#')
            nm = fresh('k', ty)
            main.append({'k': 'const', 'name': nm, 'e': e})
            main.append({'k': 'print', 'items': [[['var', nm], ';'],
                                                 [['bin', '+', ['var', nm], ['lit', '%', 1]], '']]})
            if r.random() < 0.25:
                # a string CONST defined through another string CONST
                s1, s2 = fresh('ks', '$'), fresh('ks', '$')
                main.append({'k': 'const', 'name': s1, 'e': ['lit', '$', r.choice(('q', 'ab', ''))]})
                main.append({'k': 'const', 'name': s2,
                             'e': ['bin', '+', ['var', s1], ['lit', '$', r.choice(('x', '', 'q'))]]})
                main.append({'k': 'print', 'items': [[['lit', '$', f'<{len(main)}>'], ';'], [['var', s2], ';'],
                                                     [['fn', 'len', [['var', s2]]], '']]})
            if r.random() < 0.4:
                # a CONST defined in terms of another one (whose value may be
                # one the compiler cannot compute)
                n2 = fresh('kc')
                main.append({'k': 'const', 'name': n2,
                             'e': ['bin', r.choice(('+', '*', '-')), ['var', nm], const_expr(r, 0)]})
                main.append({'k': 'print', 'items': [[['lit', '$', f'<{len(main)}>'], ';'], [['var', n2], '']]})
        elif form == 'let':
            ty = r.choice('%&!#')
            nm = fresh('v', ty)
            main.append({'k': 'let', 'lv': ['var', nm], 'e': e})
            main.append({'k': 'print', 'items': [[['var', nm], '']]})
        elif form == 'if':
            main.append({'k': 'ifl', 'cond': ['bin', r.choice(CMP), e, const_expr(r, 1)],
                         'then': [{'k': 'print', 'items': [[['lit', '$', 'T'], '']]}],
                         'els': [{'k': 'print', 'items': [[['lit', '$', 'F'], '']]}]})
        elif form == 'dim':
            ty = r.choice('%&!#$')
            nm = fresh('a', ty)
            lo = ['bin', r.choice(('+', '-', '*', '\\', 'mod', 'and', 'or')),
                  ['lit', r.choice('%&!#'), r.choice((0, 1, 2, 3))],
                  ['lit', r.choice('%&!#'), r.choice((1, 2, 1.5, 0.5, 2.5) if r.random() < 0.4 else (1, 2, 3))]]
            if r.random() < 0.2:
                # bounds whose evaluation fails: must fail when the DIM
                # executes, at every level, not in the compiler
                lo = ['bin', r.choice(('\\', 'mod', '/')), ['lit', r.choice('%&!#'), r.choice((1, 2, 7))],
                      ['lit', r.choice('!#'), r.choice((0.0, 0.5, 0.25))]]
                if lo[1] == '/':
                    lo[3] = ['lit', r.choice('%&!#'), 0]
            elif r.random() < 0.1:
                lo = ['bin', '+', ['lit', '%', 32767], ['lit', '%', r.choice((1, 2))]]
            hi = ['bin', '+', ['par', lo], ['lit', r.choice('%&!#'), r.choice((1, 2, 2.5, 3.5, 0.5))]]
            if lo[3][1] in '%&':
                lo[3][2] = int(lo[3][2])
            if hi[3][1] in '%&':
                hi[3][2] = int(hi[3][2])
            main.append({'k': 'dim', 'shared': False, 'name': nm, 'bounds': [[lo, hi]],
                         'ty': ty, 'as': False})
            main.append({'k': 'print', 'items': [[['fn', 'lbound', [['var', nm]]], ';'],
                                                 [['fn', 'ubound', [['var', nm]]], '']]})
        elif form == 'select':
            main.append({'k': 'select', 'e': e,
                         'cases': [[[['eq', const_expr(r, 1)], ['range', const_expr(r, 0), const_expr(r, 0)]],
                                    [{'k': 'print', 'items': [[['lit', '$', 'c1'], '']]}]],
                                   [[['is', r.choice(CMP), const_expr(r, 1)]],
                                    [{'k': 'print', 'items': [[['lit', '$', 'c2'], '']]}]]],
                         'els': [{'k': 'print', 'items': [[['lit', '$', 'c3'], '']]}]})
        else:
            ty = r.choice('%&!#')
            nm = fresh('i', ty)
            main.append({'k': 'for', 'var': nm, 'a': const_expr(r, 1),
                         'b': ['bin', '+', const_expr(r, 0), ['lit', '%', 2]],
                         'step': r.choice((None, ['lit', '!', 0.5], ['lit', '%', 1])),
                         'nextvar': False,
                         'body': [{'k': 'print', 'items': [[['var', nm], ';']]},
                                  {'k': 'ifl', 'cond': ['bin', '>', ['var', nm], ['lit', '%', 9]],
                                   'then': [{'k': 'exit', 'what': 'for'}], 'els': None}]})
    main.append({'k': 'print', 'items': [[['lit', '$', 'end'], '']]})
    prog = {'types': [], 'main': main, 'procs': []}
    number_stmts(prog)
    return prog
