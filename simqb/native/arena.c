/* Arena allocator shim for the *harness process* (no effect on semantics).
 *
 * CPython >= 3.11 allocates 16 KiB "data stack chunks" for interpreter frames
 * with mmap() and returns them with munmap() as the recursion depth crosses a
 * chunk boundary.  qbee's pyparsing grammar recurses deeply and oscillates
 * across such boundaries ~5000 times per compilation.  On this sandbox
 * (Firecracker VM) concurrent mmap/munmap from 16 worker processes does not
 * scale at all (measured: 0.95 s alone, 40 s with 16 in parallel), which
 * would turn 16 cores into one.  This shim keeps freed chunks on a free list.
 */
#include <stddef.h>
#include <string.h>
#include <sys/mman.h>

typedef struct {
    void *ctx;
    void *(*alloc)(void *ctx, size_t size);
    void (*free)(void *ctx, void *ptr, size_t size);
} ArenaAllocator;

extern void PyObject_SetArenaAllocator(ArenaAllocator *allocator);

#define CHUNK 16384
#define NCACHE 8192
static void *cache[NCACHE];
static int top = 0;
static long hits = 0, misses = 0;

static void *a_alloc(void *ctx, size_t size)
{
    (void)ctx;
    if (size == CHUNK && top > 0) {
        void *p = cache[--top];
        memset(p, 0, CHUNK);
        hits++;
        return p;
    }
    misses++;
    void *p = mmap(NULL, size, PROT_READ | PROT_WRITE,
                   MAP_PRIVATE | MAP_ANONYMOUS, -1, 0);
    return p == MAP_FAILED ? NULL : p;
}

static void a_free(void *ctx, void *ptr, size_t size)
{
    (void)ctx;
    if (size == CHUNK && top < NCACHE) {
        cache[top++] = ptr;
        return;
    }
    munmap(ptr, size);
}

static ArenaAllocator A = {NULL, a_alloc, a_free};

void simqb_install(void) { PyObject_SetArenaAllocator(&A); }
long simqb_hits(void) { return hits; }
long simqb_misses(void) { return misses; }
