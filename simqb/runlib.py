"""One simulated run with monitors, packaged for comparison."""
from .core import compile_source
from .world import ModInfo, Sim
from .monitors import Monitor

RESUME_OPS = ('errres', 'errresn')


def run_once(co, script, plan=(), budget=60000, monitors=True, types=True,
             record_io=True, signal_mode='call', sweep_every=0):
    """co: accepted CompileOutcome.  Returns dict with history, io events,
    outcome, monitor problems and causal flags."""
    mi = ModInfo.get(co.bytes)
    sim = Sim(mi, script, plan, budget=budget, record_io=record_io,
              signal_mode=signal_mode)
    mon = Monitor(sim, types=types) if monitors else None
    resumed = [False]

    def pre(s, n, irq):
        if irq or s.cpu.received_keyboard_interrupt:
            return
        ins = mi.instrs.get(s.cpu.pc)
        if ins is not None and ins[0] in RESUME_OPS:
            resumed[0] = True
    sim.pre_hooks.append(pre)
    if mon is not None and sweep_every and mi.has_dbg:
        cnt = [0]

        def sweep_hook(s, n):
            if s.cpu.pc in mi.stmt_starts:
                cnt[0] += 1
                if cnt[0] % sweep_every == 0:
                    mon.sweep()
        sim.post_hooks.append(sweep_hook)
    out = sim.run()
    if mon is not None:
        mon.sweep()
        if any(e['armed'] and e['mode'] == 'next' for e in mon.events):
            resumed[0] = True
    return {
        'history': sim.history, 'io': sim.io_events, 'out': out,
        'problems': mon.problems if mon else [], 'flags': mon.sig() if mon else {},
        'events': mon.events if mon else [], 'resumed': resumed[0],
        'fired': dict(sim.fired), 'sim_seconds': sim.impl.sim_seconds,
        'stdout': sim.stdout.getvalue()[-300:], 'resource': sim.resource,
        'mon': mon, 'sim': sim,
    }


def outcome_key(out, with_line=False):
    k = [out['halt'], out['trap'], bool(out['hang']),
         (out['exc'] or {}).get('type')]
    if with_line and out['trap'] != 'KEYBOARD_INTERRUPT':
        # an interrupt is attributed to whatever instruction happens to be
        # next; only program errors have "the same point" across replicas
        k.append(out['line'])
    return k


def typed_prints(io):
    """The typed PRINT operand lists, in order (formatting independent)."""
    return [e[4] for e in io if e[2] == 2 and e[3] == 2]


def first_diff(a, b):
    n = min(len(a), len(b))
    for i in range(n):
        if a[i] != b[i]:
            return i, a[i], b[i]
    if len(a) != len(b):
        return n, (a[n] if len(a) > n else '<end>'), (b[n] if len(b) > n else '<end>')
    return None
