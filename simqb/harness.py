"""Check driver shared by all properties: seeded scenario batches over a process
pool, violation triage against known findings, minimisation, replay files,
evidence files, exit codes.

Exit codes: 0 property held on everything explored (known findings printed as
KNOWN-FINDING lines); 1 at least one unlisted violation (VIOLATION line with a
replay file); 2 harness error (never prints VIOLATION, never exits 0)."""
import os
import sys
import json
import time
import traceback
import faulthandler

from .core import (VERIF, H, digest, master_seed, pmap, n_workers)

EVIDENCE_DIR = os.environ.get('SIMQB_EVIDENCE_DIR') or os.path.join(VERIF, 'evidence')
REPLAY_DIR = os.environ.get('SIMQB_REPLAY_DIR') or os.path.join(VERIF, 'replays')
KNOWN_FILE = os.path.join(VERIF, 'known_findings.json')

COMPONENTS = {
    'real': ['qbee.compiler.Compiler (parser, 3 passes, folder, code generator, peephole, assembler)',
             'qvm.module.QModule.parse', 'qvm.cpu.QvmCpu', 'qvm.machine.* Device classes',
             'qvm.debug_info.DebugInfo', 'qvm.dbg.Cmd', 'qvm.eval.QvmEval'],
    'stub': ['peripherals object (SimPeripherals replaces Smart/DumbPeripheralsImpl)',
             'smart terminal (pyglet window in a child process) - not run',
             'OS signal delivery (handler called directly, or signal.raise_signal)'],
}


class Result:
    """What one scenario execution reports back to the driver."""

    def __init__(self):
        self.evals = 0            # executions run
        self.nontrivial = set()   # digests of distinct non-trivial cases
        self.violations = []      # dicts: cls, detail, sig, scenario
        self.stats = {}           # counters (summed)
        self.states = set()       # distinct-state measure tuples
        self.sample = None
        self.sim_seconds = 0.0
        self.ticks = 0

    def count(self, key, n=1):
        self.stats[key] = self.stats.get(key, 0) + n

    def violation(self, cls, detail, scenario, sig=None):
        self.violations.append({'cls': cls, 'detail': detail, 'sig': sig or {},
                                'scenario': scenario})

    def pack(self):
        return {'evals': self.evals, 'nontrivial': sorted(self.nontrivial),
                'violations': self.violations, 'stats': self.stats,
                'states': sorted(map(repr, self.states)), 'sample': self.sample,
                'sim_seconds': self.sim_seconds, 'ticks': self.ticks}


def load_known():
    if not os.path.exists(KNOWN_FILE):
        return {'known': [], 'fixed': []}
    with open(KNOWN_FILE) as f:
        return json.load(f)


def match_known(prop, v, known):
    """A violation is a known finding iff property, class and every key of the
    entry's causal signature match exactly."""
    for k in known.get('known', []):
        if k['property'] != prop:
            continue
        if 'cls' in k and k['cls'] != v['cls']:
            continue
        if 'cls_prefix' in k and not v['cls'].startswith(k['cls_prefix']):
            continue
        sig = k.get('signature', {})
        if all(v.get('sig', {}).get(a) == b for a, b in sig.items()):
            return k
    return None


def write_replay(prop, v, tag):
    os.makedirs(REPLAY_DIR, exist_ok=True)
    name = f"{prop}-{tag}.json"
    path = os.path.join(REPLAY_DIR, name)
    with open(path, 'w') as f:
        json.dump({'property': prop, 'cls': v['cls'], 'detail': v['detail'],
                   'sig': v.get('sig', {}), 'minimised': v.get('minimised'),
                   'scenario': v['scenario']}, f,
                  indent=1, sort_keys=True, default=repr)
    return path


def write_evidence(prop, tier, seed, level, coverage, wall, violations,
                   assumptions):
    os.makedirs(EVIDENCE_DIR, exist_ok=True)
    ev = {'property_id': prop, 'tier': tier, 'seed': seed, 'level': level,
          'coverage': coverage, 'assumptions': assumptions,
          'wall_s': round(wall, 2), 'violations': violations}
    with open(os.path.join(EVIDENCE_DIR, prop + '.json'), 'w') as f:
        json.dump(ev, f, indent=1, sort_keys=True, default=repr)


class ScenarioTimeout(BaseException):
    pass


def _alarm(signum, frame):
    raise ScenarioTimeout()


def _worker(args):
    modname, params = args
    import signal
    faulthandler.dump_traceback_later(900, exit=True)
    signal.signal(signal.SIGALRM, _alarm)
    signal.setitimer(signal.ITIMER_REAL, 240)
    try:
        mod = __import__('simqb.props.' + modname, fromlist=['x'])
        res = mod.run_params(params)
        return res.pack()
    except BaseException as e:     # harness bug: surface, do not hide
        return {'harness_error': ''.join(traceback.format_exception(e))[-3000:],
                'params': params}
    finally:
        signal.setitimer(signal.ITIMER_REAL, 0)
        faulthandler.cancel_dump_traceback_later()


def _min_worker(args):
    modname, v, max_runs = args
    faulthandler.dump_traceback_later(900, exit=True)
    try:
        mod = __import__('simqb.props.' + modname, fromlist=['x'])
        m = getattr(mod, 'minimise', None)
        if m is None:
            return None
        return m(v, max_runs)
    except BaseException:
        traceback.print_exc()
        return None
    finally:
        faulthandler.cancel_dump_traceback_later()


def drive(prop, modname, tier, level, rule, assumptions, extra_cov=None, state_measure=None):
    """Run the batch for one property.  Returns the process exit code."""
    t0 = time.time()
    seed = master_seed()
    mod = __import__('simqb.props.' + modname, fromlist=['x'])
    budget_s = mod.BUDGET[tier]
    known = load_known()
    agg = Result()
    samples = []
    all_v = []
    batch_no = 0
    harness_errors = []
    # scenario batches until the time budget is used (at least one batch)
    while True:
        params = mod.make_params(seed, tier, batch_no)
        if not params:
            break
        out = pmap(_worker, [(modname, p) for p in params], chunk=1)
        for p, o in zip(params, out):
            if 'harness_error' in o:
                harness_errors.append(o)
                continue
            agg.evals += o['evals']
            agg.nontrivial.update(o['nontrivial'])
            for k, n in o['stats'].items():
                agg.count(k, n)
            agg.states.update(o['states'])
            agg.sim_seconds += o['sim_seconds']
            agg.ticks += o['ticks']
            if o['sample'] is not None and len(samples) < 4:
                samples.append(o['sample'])
            all_v.extend(o['violations'])
        batch_no += 1
        if time.time() - t0 > budget_s or batch_no >= mod.MAX_BATCHES[tier]:
            break
        if len(all_v) > 200:
            break
    if harness_errors:
        print('HARNESS-ERROR', prop, harness_errors[0]['harness_error'], file=sys.stderr)
        print(f'harness error in {len(harness_errors)} scenario(s); no verdict')
        return 2

    # triage: known findings vs new violations
    known_seen = {}
    new = {}
    for v in all_v:
        k = match_known(prop, v, known)
        if k is not None:
            known_seen.setdefault(k['id'], [k, 0])[1] += 1
        else:
            new.setdefault(v['cls'], []).append(v)
    # pinned witnesses of known findings are replayed on every run
    stale = []
    for k in known.get('known', []):
        if k['property'] != prop:
            continue
        wpath = os.path.join(VERIF, k['witness'])
        with open(wpath) as f:
            w = json.load(f)
        vs = mod.replay(w['scenario'])
        hit = [v for v in vs if match_known(prop, v, {'known': [k]})]
        if hit:
            known_seen.setdefault(k['id'], [k, 0])[1] += 1
        else:
            stale.append(k)
            for v in vs:
                if match_known(prop, v, known) is None:
                    new.setdefault(v['cls'], []).append(v)
    for kid, (k, n) in sorted(known_seen.items()):
        print(f"KNOWN-FINDING: property={prop} {k['text']} [{kid}; seen {n}x]")
    for k in stale:
        print(f"NOTE: known finding {k['id']} no longer reproduces from its pinned witness")

    replays = []
    # minimise a few classes in parallel (bounded), report all
    order = sorted(new)
    todo = [(modname, new[c][0], 150 if tier == 'quick' else 400) for c in order[:8]]
    mins = pmap(_min_worker, todo, chunk=1) if todo else []
    for i, cls in enumerate(order):
        v = new[cls][0]
        if i < len(mins) and mins[i] is not None:
            v = mins[i]
        tag = f"{seed}-{digest([cls, v['detail']])[:8]}"
        path = write_replay(prop, v, tag)
        replays.append(path)
        print(f"VIOLATION property={prop} replay={path}")
        print(f"  class={cls} count={len(new[cls])} detail={json.dumps(v['detail'], default=repr)[:400]}")

    wall = time.time() - t0
    cov = {
        'evaluations': agg.evals,
        'distinct_nontrivial': len(agg.nontrivial),
        'rule': rule,
        'samples': samples or ['<no sample>'],
        'runs_per_hour': int(agg.evals / max(wall, 1e-6) * 3600),
        'sim_seconds': round(agg.sim_seconds, 2),
        'ticks': agg.ticks,
        'distinct_states': len(agg.states),
        'state_measure': state_measure,
        'counters': dict(sorted(agg.stats.items())),
        'batches': batch_no,
        'workers': n_workers(),
        'components': COMPONENTS,
        'known_findings_seen': sorted(known_seen),
        'violation_classes': {c: len(vs) for c, vs in sorted(new.items())},
    }
    if extra_cov:
        cov.update(extra_cov(agg))
    write_evidence(prop, tier, seed, level, cov, wall, sum(len(x) for x in new.values()),
                   assumptions)
    print(f"{prop} {tier}: seed={seed} evaluations={agg.evals} "
          f"distinct_nontrivial={len(agg.nontrivial)} states={len(agg.states)} "
          f"wall={wall:.1f}s violations={sum(len(x) for x in new.values())}")
    return 1 if new else 0
