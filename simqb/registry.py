"""Property id -> check module, level, rule text."""
import json

from . import harness

CHECKS = {
    'C07': dict(mod='c07', state_measure='(opcode at the fault point, fault kind, handler armed?, operand-stack depth (cap 6), frame depth (cap 4))', level='fault_enumeration',
                rule=('scenario = program (generated any/ref family or repository test program) x compiler '
                      'config x device script; per scenario the fault-free run plus one run per tick boundary '
                      '(interrupt), per device call x {failure, missing operation, interrupt inside the call}, per '
                      'terminal_input x {None, EOFError} and sampled two-fault runs. evaluations = simulated runs; '
                      'distinct_nontrivial = distinct (program text, config, fault plan) digests in which the '
                      'planned fault actually fired, plus one per distinct fault-free program run'),
                assumptions=['interrupt = QvmCpu.signal_handler called by the scheduler (or signal.raise_signal); OS signal latency is not simulated',
                             'budget overruns are counted as inconclusive, not as violations, except after an unarmed interrupt',
                             'expected trap categories are taken from the property text and qvm/trap.py']),
    'C02': dict(mod='c02', state_measure='(fault kind, last trap code, handler mode, operand excess at dispatch (cap 4), frame depth (cap 3)) of the reference replica', level='exploration',
                rule=('scenario = program (constant-heavy profile: constant expressions over every operator / operand '
                      'type pair with boundary values in CONST, static bounds, PRINT items, conditions, FOR, SELECT; '
                      'generated any/ref programs; repository programs) x device script; replicas -O0..-O3 at each debug '
                      'setting run the identical script and the identical fault (k-th device call fails / is '
                      'interrupted) and are compared event by event (device history, typed PRINT operands, outcome, '
                      'trapped line with -g) and on acceptance. evaluations = compilations + simulated runs; '
                      'distinct_nontrivial = distinct (text, replica group, plan) digests in which a fault fired, '
                      'plus one per distinct fault-free group'),
                assumptions=['-O0 is the reference replica', 'interrupts at tick boundaries cannot be aligned across levels and are not used here',
                             'the enumerations named in the quantifier (all peephole windows, all boundary pairs) are sampled, not exhausted']),
    'C08': dict(mod='c08', state_measure='(fault kind, last trap code, handler mode, operand excess at dispatch (cap 4), frame depth (cap 3)) of the reference replica', level='exploration',
                rule=('as C02 with the replica axis {-g, no -g} at each of -O0..-O2; programs in which RESUME / RESUME NEXT / '
                      'ON ERROR RESUME NEXT actually executes are exempt for the no-g replica, which must then stop with '
                      'CANNOT_RESUME after a prefix of the -g history; sections 1-3 compared byte-wise as a static sanity check'),
                assumptions=['whether a RESUME executed is observed by the tick wrapper (errres/errresn at pc, or a trap taken in RESUME NEXT mode)']),
    'C03': dict(mod='c03', state_measure='(trap code, handler mode, operand excess at dispatch (cap 5), frame depth (cap 4)) over all trap events', level='exploration',
                rule=('scenario = program x config x device script with rejected INPUT lines; fault-free run, one run per '
                      '(sampled) device call with a device failure, and 2-3-fault runs; monitors between all ticks: no '
                      'machine-level fault code, pc on an instruction start, declared cell types after every store and in '
                      'periodic sweeps of all live frames and the global area, operand-stack depth at every statement '
                      'start = frame base + pending GOSUBs. evaluations = simulated runs (+1 compilation per scenario); '
                      'distinct_nontrivial = distinct (text, config, plan) digests of runs that executed (fault fired where planned)'),
                assumptions=['declared cell types are derived by simqb from the routine symbol tables of the debug section',
                             'statement boundaries come from the debug map (CASE clause element records and the synthesised END SELECT of an empty CASE body are not boundaries)',
                             'the abstract interpretation named in the quantifier is not performed (different technique); the claim is the concrete-run monitor']),
    'C20': dict(mod='c20', state_measure='(hash seed != 0, cwd kind, clock patched?, set of history outcomes)', level='exploration',
                rule=('scenario = program x config; baseline = fresh interpreter (hash seed 0, cwd /verif, real clock, no '
                      'history) compiling it and running it twice; then one fresh interpreter per drawn environment: hash '
                      'seed, cwd, patched wall clock, and a history of 0-6 earlier operations in the same process '
                      '(compilations of other programs, compilations that are rejected, compilations aborted by an '
                      'exception raised at a seeded line event inside qbee.*, VM runs, debugger sessions). Compared: '
                      'acceptance, sections 1-4, listing, and for execution device history, outcome and tick count. '
                      'evaluations = interpreter processes; distinct_nontrivial = distinct (text, config, environment) digests'),
                assumptions=['the debug section (gzip+pickle) is excluded, as the property says',
                             'two compilations interleaved on two threads are not simulated (no thread-safety claim)']),
    'C18': dict(mod='c18', state_measure='(target types, placement, prompt present?, prompt separator, number of rejected lines, fault kinds)', level='fault_enumeration',
                rule=('scenario = INPUT statement (1-4 targets: scalars / array elements / record fields of every builtin type; '
                      'prompt forms none, \"p\";, \"p\", and leading ;) placed at module level, in a GOSUB routine or in a SUB '
                      '(targets by reference) x response history (0-4 rejected lines of the classes wrong field count, '
                      'alphabetic text, out-of-range integer, Python-only spelling, at a drawn field position, then an accepted '
                      'line) x config x peripherals (simulated / real dumb terminal over simulated stdio); then a device '
                      'failure and an interrupt inside every device call of the statement and end of input at every attempt. '
                      'evaluations = simulated runs; distinct_nontrivial = distinct (text, config, responses, plan) digests'),
                assumptions=['only response classes whose verdict the property statement makes unambiguous are generated (no 1E5 into INTEGER, no &H10, no quoted fields, no empty numeric field, no float text for integer targets)',
                             'values are read as typed PRINT operands of the tail, not as formatted text']),
    'C12': dict(mod='c12', state_measure='(command, statement kind at pc, logical frame depth (cap 4), halted?)', level='exploration',
                rule=('scenario = program (-g, -O0..-O2) x device script x history of 3-30 operator commands (step, next, '
                      'stepi, nexti, continue, break line/routine/address, delbr, read-only commands, garbage), padded with '
                      'delete-all + continue. The free run of the same module gives the per-tick trace (pc, innermost '
                      'statement, frame depth, device-history length) the property sentences are evaluated over. '
                      'evaluations = compilations + debugged runs; distinct_nontrivial = distinct (text, config, command list) '
                      'digests that ran to the end; distinct states = (command, statement kind at pc, frame depth, halted?)'),
                assumptions=['statement records and line numbers are read from the debug map by simqb\'s own reader (their soundness is C11)',
                             'a step that is stopped early by a user breakpoint is accepted']),
    'C01': dict(mod='c01', state_measure='(outcome trap, faulted?, an error was handled?, number of device events (cap 12))', level='exploration',
                rule=('scenario = reference-subset program (typed generator) x device script (response lines, keys, RNG values, '
                      'virtual clock with jumps) x 3 compiler configurations; the reference interpreter and the real machine '
                      'run the same script and the same fault plan (fault-free, then device failures addressed by (operation, '
                      'n-th execution)); compared event by event: typed PRINT items with separators, INPUT dialogue, device '
                      'calls with arguments, outcome class and (with -g) the line of the failing statement. evaluations = '
                      'compilations + simulated runs; distinct_nontrivial = distinct (text, configs, plan) digests on which '
                      'all configurations agreed with the reference'),
                assumptions=['the reference interpreter (simqb/ref.py, semantic decisions in DESIGN.md appendix A) is trusted',
                             'runs that leave the reference subset are counted as inconclusive, not compared',
                             'the virtual clock advances per low-level device call (event-driven)']),
    'C10': dict(mod='c10', state_measure='(trap code, handler mode, operand excess at dispatch (cap 5), frame depth (cap 4), opcode that trapped) over dispatched traps', level='fault_enumeration',
                rule=('scenario = reference-subset program with an armed handler (shapes: GOTO h + RESUME NEXT, GOTO h + repair + '
                      'RESUME, ON ERROR RESUME NEXT, handler that ENDs; optional later ON ERROR GOTO 0) and 1-3 planted run-time '
                      'errors (5 categories, depth 0-3, in nested blocks / multi-statement lines / GOSUB routines / procedures) x '
                      '-O0/-O1/-O2 with -g; fault-free run, then a device failure at every device operation of that run (cap 40) and '
                      'sampled pairs/triples; reference interpreter under the same plan; stack-depth monitor. evaluations = '
                      'compilations + simulated runs; distinct_nontrivial = distinct (text, plan) digests in which an error was '
                      'actually handled and all configurations agreed with the reference'),
                assumptions=['reference interpreter semantics of ON ERROR (DESIGN.md appendix A); errors in block headers under a handler are inconclusive',
                             'for an error inside a procedure the property only promises transfer to the handler; resumption inside the procedure follows the machine\'s design and is compared as such']),
    'C13': dict(mod='c13', state_measure='(print kind, how the stop was reached, halted?)', level='exploration',
                rule=('scenario = reference-subset program (-g, -O0..-O2) x stop point (statement, j-th arrival, reached by line '
                      'breakpoint + continue or by stepping; in main and in procedure frames; and after the program finished) x 1-5 '
                      'print expressions over names in scope (scalars, array elements, record fields, constants; arithmetic, '
                      'comparison, logical, string operators) plus malformed / unknown-name prints. Expected values come from a '
                      'twin program with PRINT <exprs> inserted before the stopped statement, run freely on the real machine (typed '
                      'operands of the j-th execution). evaluations = compilations + debugger sessions + prints; '
                      'distinct_nontrivial = distinct (text, opt, stop, arrival, expression) digests whose values agreed'),
                assumptions=['virtual clock frozen (deltas 0) so that the inserted PRINT cannot change TIMER-dependent control flow',
                             'a location the program never assigned may be reported as having no value yet (the property speaks of already-assigned locations)',
                             'builtin and user function calls are not part of the generated print expressions']),
    'C11': dict(mod='c11', state_measure='(statement kind or trap code, optimisation level, event kind)', level='exploration',
                rule=('run-time half only. scenario = reference-subset program (-g, two of -O0..-O2) x device script x plan '
                      '(fault-free, then sampled device failures); the reference interpreter tells which statement issues each '
                      'device event / fails / executes; the debug map must name a record on that statement\'s line (and with its '
                      'text) for the io instruction of every device call and for every trapping instruction, and the executed '
                      'simple statements must appear in order among the statement starts control passes. evaluations = '
                      'compilations + simulated runs; distinct_nontrivial = distinct (text, config, plan) digests checked'),
                assumptions=['instructions never involved in an observed event are not attributed (static half not claimed)',
                             'line numbers of statements come from simqb\'s own printer; the reference interpreter decides which statement acts']),
}


def check(prop, tier):
    c = CHECKS.get(prop)
    if c is None:
        print(f'no check registered for {prop}')
        return 2
    return harness.drive(prop, c['mod'], tier, c['level'], c['rule'], c['assumptions'],
                         state_measure=c.get('state_measure'))


def replay_file(path):
    with open(path) as f:
        w = json.load(f)
    prop = w['property']
    c = CHECKS[prop]
    mod = __import__('simqb.props.' + c['mod'], fromlist=['x'])
    vs = mod.replay(w['scenario'])
    same = [v for v in vs if v['cls'] == w['cls']]
    for v in vs:
        print(f"  reproduced class={v['cls']} detail={json.dumps(v['detail'], default=repr)[:300]}")
    if same:
        print(f"VIOLATION property={prop} replay={path}")
        return 1
    print(f'{prop}: replay did not reproduce class {w["cls"]}' +
          (f' (other classes: {[v["cls"] for v in vs]})' if vs else ''))
    return 0
