"""Property id -> check module, level, rule text."""
import json

from . import harness

CHECKS = {
    'C07': dict(mod='c07', level='fault_enumeration',
                rule=('scenario = program (generated any/ref family or repository test program) x compiler '
                      'config x device script; per scenario the fault-free run plus one run per tick boundary '
                      '(interrupt), per device call x {failure, missing operation, interrupt inside the call}, per '
                      'terminal_input x {None, EOFError} and sampled two-fault runs. evaluations = simulated runs; '
                      'distinct_nontrivial = distinct (program text, config, fault plan) digests in which the '
                      'planned fault actually fired, plus one per distinct fault-free program run'),
                assumptions=['interrupt = QvmCpu.signal_handler called by the scheduler (or signal.raise_signal); OS signal latency is not simulated',
                             'budget overruns are counted as inconclusive, not as violations, except after an unarmed interrupt',
                             'expected trap categories are taken from the property text and qvm/trap.py']),
}


def check(prop, tier):
    c = CHECKS.get(prop)
    if c is None:
        print(f'no check registered for {prop}')
        return 2
    return harness.drive(prop, c['mod'], tier, c['level'], c['rule'], c['assumptions'])


def replay_file(path):
    with open(path) as f:
        w = json.load(f)
    prop = w['property']
    c = CHECKS[prop]
    mod = __import__('simqb.props.' + c['mod'], fromlist=['x'])
    vs = mod.replay(w['scenario'])
    same = [v for v in vs if v['cls'] == w['cls']]
    for v in vs:
        print(f"  reproduced class={v['cls']} detail={json.dumps(v['detail'], default=repr)[:300]}")
    if same:
        print(f"VIOLATION property={prop} replay={path}")
        return 1
    print(f'{prop}: replay did not reproduce class {w["cls"]}' +
          (f' (other classes: {[v["cls"] for v in vs]})' if vs else ''))
    return 0
