"""C20 - determinism of compilation and execution under environment
nondeterminism the simulator owns: hash seed, process, cwd, wall clock, and
the in-process history of earlier compilations (successful, rejected and
aborted at a seeded crash point), VM runs and debugger sessions."""
import os
import sys
import json
import shutil
import tempfile
import subprocess

from ..core import H, stream, digest, VERIF, REPO
from ..harness import Result
from .. import scen
from ..gen import const_program
from ..qast import to_text
from ..minimise import minimise_scenario

PROP = 'C20'
BUDGET = {'quick': 70, 'thorough': 1500}
MAX_BATCHES = {'quick': 30, 'thorough': 3000}
PER_BATCH = 48

BAD_PROGRAMS = (
    'x = = 1', 'for i = 1 to 3', 'print "a" + 1', 'x% = "s"', 'goto nowhere',
    'dim a(3)\ndim a(4)', 'sub s\nend function', 'const c = x', 'next', 'call nosuch(1)',
    'type t\n a as integer\nend type\ndim r as t\nr.b = 1', 'x = 1 +', 'if 1 then\nelse\nelse\nend if',
)


def make_params(seed, tier, batch_no):
    return [{'seed': H(seed, PROP, batch_no, i), 'i': batch_no * PER_BATCH + i,
             'tier': tier} for i in range(PER_BATCH)]


def _prog(seed, r):
    k = r.random()
    if k < 0.2:
        p = const_program(stream(seed, 'program'))
        return to_text(p)[0], p, scen.default_script()
    if k < 0.3:
        sc = scen.corpus_scenario(r)
        return sc['text'], None, sc['script']
    if r.random() < 0.4:
        # programs whose behaviour hangs on the devices: key polling loops,
        # TIMER / RND / INKEY$ in expressions
        sc = scen.generated_scenario(seed, devfuncs=True, strings=True, loops=True, waitkey=0.6)
    else:
        sc = scen.generated_scenario(seed)
    return sc['text'], sc['ast'], sc['script']


def build(params):
    s = params['seed']
    r = stream(s, 'env')
    text, ast, script = _prog(s, r)
    target = {'text': text, 'opt': r.choice((0, 1, 2, 3)), 'dbg': r.random() < 0.5}
    nenv = 3 if params['tier'] == 'quick' else 8
    envs = []
    for j in range(nenv):
        hist = []
        for _ in range(r.choice((0, 0, 1, 2, 4, 6))):
            k = r.random()
            hs = H(s, 'hist', j, len(hist))
            if k < 0.35:
                t, _, _ = _prog(hs, stream(hs, 'p'))
                if r.random() < 0.4:
                    # the target text itself, compiled earlier in this process
                    # with other options (or the same ones)
                    t = text
                hist.append({'kind': 'compile', 'text': t, 'opt': r.choice((0, 1, 2)),
                             'dbg': r.random() < 0.5})
            elif k < 0.55:
                hist.append({'kind': 'compile', 'text': r.choice(BAD_PROGRAMS),
                             'opt': r.choice((0, 1, 2)), 'dbg': r.random() < 0.5})
            elif k < 0.8:
                t, _, _ = _prog(hs, stream(hs, 'p'))
                if r.random() < 0.3:
                    t = text          # the target itself, aborted earlier
                hist.append({'kind': 'abort', 'text': t, 'opt': r.choice((0, 1, 2)),
                             'dbg': r.random() < 0.5,
                             'at': int(10 ** r.uniform(0.5, 4.6))})
            elif k < 0.9:
                t, _, sc = _prog(hs, stream(hs, 'p'))
                hist.append({'kind': 'run', 'text': t, 'opt': 0, 'dbg': False, 'script': sc})
            else:
                t, _, sc = _prog(hs, stream(hs, 'p'))
                hist.append({'kind': 'debug', 'text': t, 'opt': r.choice((0, 2)), 'script': sc,
                             'cmds': [r.choice(('step', 'next', 'continue', 'print x', 'bt', 'break 3'))
                                      for _ in range(r.randint(1, 6))]})
        envs.append({'hashseed': r.choice((0, 1, 2, 12345, r.randint(3, 4000000000))),
                     'cwd': r.choice(('verif', 'tmp', 'root')),
                     'epoch': r.choice((None, 0.0, 946684800.0, 4102444800.5, float(r.randint(1, 2 ** 31)))),
                     'history': hist})
    # the second machine of the interleaved run: another program, or the
    # target itself under another device script
    if r.random() < 0.5:
        ot, _, osc = _prog(H(s, 'other'), stream(H(s, 'other'), 'p'))
        other = {'text': ot, 'opt': r.choice((0, 2)), 'script': osc}
    else:
        other = {'text': text, 'opt': target['opt'],
                 'script': scen.generated_scenario(H(s, 'other'))['script']}
    other['schedule'] = H(s, 'schedule') % (2 ** 31)
    return {'property': PROP, 'run_seed': s, 'source': 'gen', 'text': text, 'ast': ast,
            'target': target, 'script': script, 'envs': envs, 'other': other}


def run_params(params):
    return execute(build(params))


def replay(scn):
    return execute(scn).violations


def minimise(v, max_runs=60):
    # environments first (keep only the divergent one), then its history
    return minimise_env(v, replay, max_runs)


def minimise_env(v, replay_fn, max_runs):
    import copy
    best = v
    runs = [0]

    def attempt(scn):
        nonlocal best
        if runs[0] >= max_runs:
            return False
        runs[0] += 1
        for x in replay_fn(scn):
            if x['cls'] == v['cls']:
                best = x
                return True
        return False
    scn = best['scenario']
    if len(scn['envs']) > 1:
        for e in list(scn['envs']):
            c = copy.deepcopy(best['scenario'])
            c['envs'] = [e]
            if attempt(c):
                break
    i = 0
    while runs[0] < max_runs and best['scenario']['envs'] and \
            i < len(best['scenario']['envs'][0]['history']):
        c = copy.deepcopy(best['scenario'])
        del c['envs'][0]['history'][i]
        if not attempt(c):
            i += 1
    for key, val in (('epoch', None), ('cwd', 'verif'), ('hashseed', 0)):
        c = copy.deepcopy(best['scenario'])
        if c['envs']:
            c['envs'][0][key] = val
            attempt(c)
    best = dict(best)
    best['minimised'] = {'replays': runs[0]}
    return best


def _norm(run):
    # a machine driven tick by tick never passes through run()'s epilogue:
    # END_OF_CODE and an explicit halt at the last instruction look alike
    d = dict(run)
    if d.get('halt') in ('END_OF_CODE', 'NONE'):
        d['halt'] = 'END_OF_CODE'
    return d


def run_job(target, script, env, tmpdir, other=None):
    job = {'verif': VERIF, 'env': {'epoch': env.get('epoch')}, 'other': other,
           'history': env.get('history', []), 'target': target, 'script': script}
    e = dict(os.environ)
    e['PYTHONHASHSEED'] = str(env.get('hashseed', 0))
    e['SIMQB_REPO'] = REPO
    e.pop('PYTHONPATH', None)
    cwd = {'verif': VERIF, 'tmp': tmpdir, 'root': '/'}[env.get('cwd', 'verif')]
    p = subprocess.run([sys.executable, os.path.join(VERIF, 'simqb', 'envworker.py')],
                       input=json.dumps(job).encode(), stdout=subprocess.PIPE,
                       stderr=subprocess.PIPE, env=e, cwd=cwd, timeout=300)
    if p.returncode != 0:
        raise RuntimeError('envworker failed: ' + p.stderr.decode()[-2000:])
    return json.loads(p.stdout.decode())


def execute(scn):
    res = Result()
    tmpdir = tempfile.mkdtemp(prefix='simqb-c20-')
    try:
        base = run_job(scn['target'], scn['script'], {'hashseed': 0, 'cwd': 'verif'}, tmpdir,
                       scn.get('other'))
        res.evals += 1
        if res.sample is None:
            res.sample = {'target': {k: v for k, v in scn['target'].items() if k != 'text'},
                          'text_head': scn['text'][:300], 'baseline': base,
                          'envs': [{k: (v if k != 'history' else [h['kind'] for h in v])
                                    for k, v in e.items()} for e in scn['envs']]}
        if base['status'] == 'ok':
            r0, r1, r2, r3 = base['runs'][:4]
            if len(base['runs']) > 4:
                res.count('interleaved_runs')
                res.count('interleave_switches', base.get('interleave_switches', 0))
                if _norm(base['runs'][4]) != _norm(r0):
                    res.violation('C20:run', {'what': 'a run interleaved with a second machine in the '
                                                      'same process differs from the run alone',
                                              'alone': r0, 'interleaved': base['runs'][4]},
                                  dict(scn, envs=[]), sig={'where': 'interleaved'})
            if r0 != r1 or r2 != r3:
                res.violation('C20:run', {'what': 'two runs in one process differ',
                                          'first': r0, 'second': r1},
                              dict(scn, envs=[]), sig={'where': 'same-process'})
        for env in scn['envs']:
            out = run_job(scn['target'], scn['script'], env, tmpdir, scn.get('other'))
            res.evals += 1
            kinds = [h['kind'] for h in env['history']]
            for k in kinds:
                res.count('history_' + k)
            for lg in out['history_log']:
                res.count('history_outcome_' + lg.split(':')[0])
            if 'aborted' in out['history_log']:
                res.count('probe_compile_after_aborted_compile')
            res.count('env_hashseed_nonzero' if env['hashseed'] else 'env_hashseed_zero')
            if env.get('epoch') is not None:
                res.count('env_clock_patched')
            if env.get('cwd') != 'verif':
                res.count('env_other_cwd')
            res.nontrivial.add(digest([scn['text'], scn['target']['opt'], scn['target']['dbg'], env]))
            res.states.add((env['hashseed'] != 0, env.get('cwd'), env.get('epoch') is not None,
                            tuple(sorted(set(out['history_log'])))))
            one = dict(scn, envs=[env])
            if out['key'] != base['key']:
                res.violation('C20:acceptance', {'baseline': base['key'], 'got': out['key'],
                                                 'env': {k: v for k, v in env.items() if k != 'history'},
                                                 'history': out['history_log']}, one,
                              sig={'aborted': 'aborted' in out['history_log']})
                continue
            if base['status'] != 'ok':
                continue
            for sid in ('1', '2', '3', '4'):
                if out['sections'][sid] != base['sections'][sid]:
                    res.violation('C20:compile-bytes', {'section': int(sid),
                                                        'env': {k: v for k, v in env.items() if k != 'history'},
                                                        'history': out['history_log']}, one,
                                  sig={'section': int(sid), 'aborted': 'aborted' in out['history_log']})
                    break
            else:
                if out['listing'] != base['listing']:
                    res.violation('C20:listing', {'env': {k: v for k, v in env.items() if k != 'history'},
                                                  'history': out['history_log']}, one,
                                  sig={'aborted': 'aborted' in out['history_log']})
                elif out['runs'][0] != base['runs'][0] or out['runs'][1] != base['runs'][0] \
                        or out['runs'][2] != base['runs'][2] or out['runs'][3] != base['runs'][2] \
                        or (len(out['runs']) > 4 and _norm(out['runs'][4]) != _norm(base['runs'][0])):
                    res.violation('C20:run', {'baseline': base['runs'][0], 'got': out['runs'],
                                              'env': {k: v for k, v in env.items() if k != 'history'}},
                                  one, sig={'where': 'other-process'})
    finally:
        shutil.rmtree(tmpdir, ignore_errors=True)
    return res
