"""C01 - compiled programs do what the source says: I/O-history refinement of
the real machine against the reference interpreter under scripted devices,
a virtual clock, planted run-time errors and injected device failures."""
from ..core import H, stream, compile_source, digest
from ..world import ModInfo, Sim, IO_NAMES
from ..harness import Result
from ..monitors import Monitor
from ..ref import Interp, Inconclusive
from ..runlib import first_diff
from ..qast import to_text
from .. import scen
from ..minimise import minimise_scenario

PROP = 'C01'
BUDGET = {'quick': 70, 'thorough': 1500}
MAX_BATCHES = {'quick': 40, 'thorough': 4000}
PER_BATCH = 64
CAP = 60000


def make_params(seed, tier, batch_no):
    return [{'seed': H(seed, PROP, batch_no, i), 'i': batch_no * PER_BATCH + i,
             'tier': tier} for i in range(PER_BATCH)]


def build(params):
    s = params['seed']
    r = stream(s, 'config')
    sc = scen.generated_scenario(s, family='ref', raw=False, wild_index=r.random() < 0.5)
    cfgs = [[0, True]]
    for _ in range(2):
        c = [r.choice((0, 1, 2)), r.random() < 0.5]
        if c not in cfgs:
            cfgs.append(c)
    return {'property': PROP, 'run_seed': s, 'source': sc['source'], 'text': sc['text'],
            'ast': sc['ast'], 'script': sc['script'],
            'meta': {k: v for k, v in sc['meta'].items() if k in ('plant', 'pos')},
            'configs': cfgs, 'plan': None, 'enumerate': True, 'sample_seed': H(s, 'faults')}


def run_params(params):
    return execute(build(params))


def replay(scn):
    return execute(scn).violations


def minimise(v, max_runs=220):
    return minimise_scenario(v, replay, max_runs)


# ---------------------------------------------------------------------------
# normalisation of the two histories into one event vocabulary


def merge_text(events):
    out = []
    for e in events:
        if e[0] == 'text' and out and out[-1][0] == 'text':
            out[-1] = ['text', out[-1][1] + e[1]]
        elif e[0] == 'text' and e[1] == '' and False:
            pass
        else:
            out.append(list(e))
    return [e for e in out if not (e[0] == 'text' and e[1] == '')]


def print_items(args):
    """Typed PRINT operands (tagged protocol) -> items."""
    items = []
    i = 0
    if not isinstance(args, list):
        return ['<bad print frame>']
    while i < len(args):
        code = args[i][1]
        if code == 0 and i + 1 < len(args):
            items.append(['v', args[i + 1][0], args[i + 1][1]])
            i += 2
        elif code == 1:
            items.append(';')
            i += 1
        elif code == 2:
            items.append(',')
            i += 1
        else:
            items.append(['?', code])
            i += 1
    return items


def real_events(sim):
    prints = {e[0]: e[4] for e in sim.io_events if e[2] == 2 and e[3] == 2}
    out = []
    done_print = set()
    for h, o in zip(sim.history, sim.impl.origins):
        name = h[0]
        if o is not None and (o[1], o[2]) == (2, 2) and name == 'terminal_print':
            if o[0] not in done_print:
                done_print.add(o[0])
                out.append(['print', print_items(prints.get(o[0]))])
            else:
                out.append(['call'] + h)      # a second low-level call of one PRINT
        elif o is not None and (o[1], o[2]) == (2, 8):
            if name == 'terminal_print':
                out.append(['text', h[1]])
            elif name == 'terminal_input':
                out.append(['input', bool(h[1])])
            else:
                out.append(['call'] + h)
        else:
            out.append(['call'] + h)
    return merge_text(out)


def _mk(scn, plan, cfg=None):
    s = {k: scn[k] for k in ('property', 'run_seed', 'source', 'text', 'ast', 'script', 'meta')}
    s['sample_seed'] = scn.get('sample_seed', 0)
    s['configs'] = [cfg] if cfg is not None else scn['configs']
    s['plan'] = plan
    s['enumerate'] = False
    return s


def compare(scn, plan, res, cos, ref, prop='C01', monitor=False):
    """Run the real machine at each configuration and compare with `ref`."""
    revents = merge_text(ref.dev.events)
    rout = ref.outcome
    pos = scn['meta'].get('pos', {})
    for cfg in scn['configs']:
        co = cos[tuple(cfg)]
        mi = ModInfo.get(co.bytes)
        sim = Sim(mi, scn['script'], plan, budget=CAP, record_io=True)
        mon = Monitor(sim, types=False, depth=monitor)
        out = sim.run()
        res.evals += 1
        res.ticks += out['ticks']
        res.sim_seconds += sim.impl.sim_seconds
        for k, n in sim.fired.items():
            res.count('fired_' + k, n)
        if out['hang']:
            res.count('inconclusive_budget_exhausted')
            continue
        if not cfg[1] and (ref.resumed or any(e['armed'] for e in mon.events)):
            # without -g nothing can be resumed (C08's documented exemption)
            res.count('skipped_resume_without_debug_info')
            continue
        if monitor:
            for e in mon.events:
                if e['armed']:
                    res.states.add((e['code'], e['mode'], min(e['excess'] or 0, 5),
                                    min(e['frames'], 4), mi.instrs.get(e['pc'], ('?',))[0]))
                    if e['excess']:
                        res.count('probe_fault_with_pending_operands')
                    if e['frames'] > 1:
                        res.count('probe_fault_inside_callee')
            if mon.dispatches >= 2:
                res.count('probe_second_fault_after_resume')
            for cls, d in mon.problems:
                name = 'stack-residue' if cls == 'C03:stack-depth' else cls.split(':', 1)[1]
                res.violation(f'{prop}:{name}', dict(d, config=cfg, plan=plan), _mk(scn, plan, cfg),
                              sig=dict(mon.sig()))
                return False
        ev = real_events(sim)
        d = first_diff(revents, ev)
        if out['exc'] is not None:
            res.violation(f'{prop}:outcome', {'what': 'host exception', 'exc': out['exc'],
                                          'config': cfg, 'plan': plan}, _mk(scn, plan, cfg),
                          sig={'exc': out['exc']['type']})
            return False
        if d is not None:
            res.violation(f'{prop}:history', {'config': cfg, 'index': d[0], 'reference': d[1],
                                          'machine': d[2], 'plan': plan,
                                          'machine_outcome': out, 'reference_outcome': rout},
                          _mk(scn, plan, cfg), sig={'kind': _kind(d[1], d[2])})
            return False
        if (out['halt'], out['trap']) != (rout['halt'], rout['trap']):
            res.violation(f'{prop}:outcome', {'config': cfg, 'reference': rout, 'machine': out,
                                          'plan': plan}, _mk(scn, plan, cfg),
                          sig={'ref': rout['trap'], 'got': out['trap']})
            return False
        if cfg[1] and rout['trap'] not in (None, 'KEYBOARD_INTERRUPT') and rout['stmt'] is not None:
            want = pos.get(str(rout['stmt']))
            if want is not None and out['line'] != want[0]:
                res.violation(f'{prop}:outcome', {'what': 'error raised by another statement',
                                              'config': cfg, 'reference_line': want[0],
                                              'machine_line': out['line'], 'trap': out['trap'],
                                              'plan': plan}, _mk(scn, plan, cfg),
                              sig={'kind': 'line'})
                return False
        res.count('runs_agreeing')
    return True


def _kind(a, b):
    ka = a[0] if isinstance(a, list) else str(a)
    kb = b[0] if isinstance(b, list) else str(b)
    return f'{ka}/{kb}'


def execute(scn):
    res = Result()
    cos = {}
    for cfg in scn['configs']:
        co = compile_source(scn['text'], cfg[0], cfg[1])
        res.evals += 1
        if not co.ok:
            res.count('not_accepted_' + co.status)
            return res
        cos[tuple(cfg)] = co
    plans = [scn['plan'] or []] if not scn.get('enumerate') else [[]]
    first = True
    r = stream(scn.get('sample_seed', 0), 'faults')
    while plans:
        plan = plans.pop(0)
        ref = Interp(scn['ast'], scn['script'], plan)
        try:
            ref.run()
        except Inconclusive as e:
            res.count('reference_inconclusive')
            res.count('inconclusive:' + str(e)[:40])
            first = False
            continue
        ok = compare(scn, plan, res, cos, ref)
        if first and res.sample is None:
            res.sample = {'source': scn['source'], 'configs': scn['configs'],
                          'text_head': scn['text'][:500],
                          'reference_events': ref.dev.events[:8], 'reference_outcome': ref.outcome}
        if ok:
            res.nontrivial.add(digest([scn['text'], scn['configs'], plan]))
            res.states.add((ref.outcome['trap'], bool(plan), ref.resumed,
                            min(len(ref.dev.events), 12)))
            if ref.outcome['trap']:
                res.count('runs_ending_in_' + ref.outcome['trap'])
            if ref.resumed:
                res.count('runs_with_handled_error')
        if first and scn.get('enumerate') and ok:
            # device failures addressed by (operation, n-th execution)
            ops = [(op, n) for op, cnt in sorted(ref.dev.op_count.items())
                   for n in range(1, cnt + 1) if op != 'data.read']
            for op, n in (r.sample(ops, 6) if len(ops) > 6 else ops):
                plans.append([{'kind': 'F1op', 'op': op, 'nth': n}])
        first = False
        if res.violations:
            break
    return res
