"""C18 - INPUT re-prompts on bad lines and assigns only well-typed values.

Workload: INPUT statements with 1..4 targets (scalars, array elements, record
fields; every builtin type), every prompt form, placed at module level, in a
GOSUB routine or in a SUB (targets passed by reference), followed by a tail
that prints every target, their neighbours and sentinels, then RETURNs / calls.
Fault space: histories of 0..4 rejected response lines (wrong field count,
alphabetic text / out-of-range integer / Python-only spelling at each field
position) followed by an accepted line; end of input; device failure on the
prompt print or the input call, with and without a handler; interrupt inside
the input call.  Both the simulated peripherals and the repository's real dumb
terminal over simulated stdio.
Oracle: the INPUT protocol model of DESIGN.md appendix B.
"""
import struct

from ..core import H, stream, compile_source, digest
from ..harness import Result
from ..runlib import run_once, typed_prints
from ..qast import to_text, number_stmts
from ..minimise import minimise_scenario

PROP = 'C18'
BUDGET = {'quick': 60, 'thorough': 1500}
MAX_BATCHES = {'quick': 40, 'thorough': 4000}
PER_BATCH = 64
CAP = 20000
CELL = {'%': 'INTEGER', '&': 'LONG', '!': 'SINGLE', '#': 'DOUBLE', '$': 'STRING'}
INIT = {'%': 111, '&': 100111, '!': 11.5, '#': 21.25, '$': 'keep'}


def make_params(seed, tier, batch_no):
    return [{'seed': H(seed, PROP, batch_no, i), 'i': batch_no * PER_BATCH + i,
             'tier': tier} for i in range(PER_BATCH)]


# ---------------------------------------------------------------------------
# workload


def build_program(r):
    n = r.randint(1, 4)
    place = r.choice(('main', 'main', 'gosub', 'sub'))
    handler = r.random() < 0.4
    tys = [r.choice('%&!#$') for _ in range(n)]
    types = []
    main = []
    targets = []       # lvalue expr in main
    watch = []         # (lvalue, type, initial) printed afterwards besides targets
    used_rec = used_arr = 0
    recs = []          # (index, fields) of record variables that hold a target
    noinit = {}        # repr(lvalue) -> default value: not assigned before the INPUT
    for i, t in enumerate(tys):
        # (not in a GOSUB routine: the routine's text follows the tail that
        # prints the element, and qbee sets an implicit array up at its first
        # use in text order)
        kind = r.choice(('scalar', 'scalar', 'elem', 'field', 'ielem')
                        if r.random() < 0.4 and place != 'gosub'
                        else ('scalar', 'scalar', 'elem', 'field'))
        if kind == 'ielem':
            # element of an array that is never DIMmed (0 TO 10); the INPUT
            # statement is its first use
            name = f'im{i}{t}'
            lv = ['idx', name, [['lit', '%', r.choice((0, 3, 10))]]]
            targets.append(lv)
            noinit[repr(lv)] = '' if t == '$' else 0
        elif kind == 'scalar':
            name = f't{i}{t}'
            targets.append(['var', name])
        elif kind == 'elem':
            used_arr += 1
            name = f'ar{i}{t}'
            lb = r.randint(-1, 2)
            main.append({'k': 'dim', 'shared': False, 'name': name,
                         'bounds': [[['lit', '%', lb], ['lit', '%', lb + 2]]], 'ty': t, 'as': False})
            targets.append(['idx', name, [['lit', '%', lb + 1]]])
            watch.append((['idx', name, [['lit', '%', lb]]], t))
            watch.append((['idx', name, [['lit', '%', lb + 2]]], t))
        elif kind == 'field' and recs and r.random() < 0.5:
            # a second field of a record variable that is already a target
            # (another type, another offset)
            j, fields = r.choice(recs)
            cand = [(fn, ft) for fn, ft in fields
                    if not any(x == ['fld', ['var', f'rv{j}'], [fn]] for x in targets)]
            if cand:
                fn, ft = r.choice(cand)
                tys[i] = ft
                lv = ['fld', ['var', f'rv{j}'], [fn]]
                targets.append(lv)
                watch[:] = [(w, wt) for w, wt in watch if w != lv]
            else:
                targets.append(['var', f't{i}{t}'])
        else:
            used_rec += 1
            tn = f'rc{i}'
            fields = [[f'fa{i}', r.choice('%&$')], [f'fb{i}', t], [f'fc{i}', r.choice('!#%')]]
            types.append({'name': tn, 'fields': fields})
            vn = f'rv{i}'
            main.append({'k': 'dim', 'shared': False, 'name': vn, 'bounds': None,
                         'ty': 'T:' + tn, 'as': True})
            targets.append(['fld', ['var', vn], [f'fb{i}']])
            recs.append((i, fields))
            watch.append((['fld', ['var', vn], [f'fa{i}']], fields[0][1]))
            watch.append((['fld', ['var', vn], [f'fc{i}']], fields[2][1]))
    dep = None
    if n >= 2 and r.random() < 0.3:
        # targets that depend on each other: INPUT i%, a(i%)  /  INPUT c%, c%
        if r.random() < 0.6:
            t1 = tys[1]
            lb = r.randint(0, 2)
            name = f'dp1{t1}'
            main.append({'k': 'dim', 'shared': False, 'name': name,
                         'bounds': [[['lit', '%', lb], ['lit', '%', lb + 2]]], 'ty': t1, 'as': False})
            tys[0] = '%'
            targets[0] = ['var', 'ix%']
            targets[1] = ['idx', name, [['var', 'ix%']]]
            for j in range(3):
                watch.append((['idx', name, [['lit', '%', lb + j]]], t1))
            dep = {'kind': 'index', 'lb': lb}
        else:
            tys[1] = tys[0]
            targets[0] = ['var', 'dup' + tys[0]]
            targets[1] = ['var', 'dup' + tys[0]]
            dep = {'kind': 'dup'}
    watch.append((['var', 'sa%'], '%'))
    watch.append((['var', 'sb$'], '$'))
    done = set()
    for lv, t in [(x, tys[i]) for i, x in enumerate(targets)] + watch:
        key = repr(lv)
        if key in done or (dep and dep['kind'] == 'index' and lv == targets[1]):
            continue
        done.add(key)
        if key in noinit:
            continue
        v = INIT[t]
        if dep and dep['kind'] == 'index' and lv == ['var', 'ix%']:
            v = dep['lb']          # a valid subscript before the INPUT, too
        main.append({'k': 'let', 'lv': lv, 'e': ['lit', t, v]})
    if handler:
        main.append({'k': 'onerr', 'mode': 'goto', 'label': 'hnd'})
    # prompt form and the leading (same-line) semicolon are independent:
    # INPUT x / INPUT "p"; x / INPUT "p", x, each with and without `;` in front
    pk = r.choice(('none', 'semi', 'comma', 'semi', 'comma'))
    inp = {'k': 'input', 'lvs': targets, 'prompt': None, 'psep': ';', 'semi': False}
    if pk in ('semi', 'comma'):
        inp['prompt'] = r.choice(('p', 'Enter value', 'a, b', '?', '', ''))
        inp['psep'] = ',' if pk == 'comma' else ';'
    if r.random() < 0.3:
        inp['semi'] = True
    procs = []
    main.append({'k': 'print', 'items': [[['lit', '$', '<S>'], '']]})
    if place == 'main':
        main.append(inp)
    elif place == 'gosub':
        main.append({'k': 'gosub', 'label': 'gi'})
    else:
        params = [[f'p{i}{t}', t, False] for i, t in enumerate(tys)]
        inp = dict(inp, lvs=[['var', p[0]] for p in params])
        procs.append({'kind': 'sub', 'name': 'si', 'params': params, 'static': False,
                      'body': [{'k': 'let', 'lv': ['var', 'lc%'], 'e': ['lit', '%', 5]}, inp,
                               {'k': 'print', 'items': [[['lit', '$', '<L>'], ';'], [['var', 'lc%'], '']]}]})
        main.append({'k': 'call', 'name': 'si', 'args': targets, 'style': r.choice(('call', 'bare'))})
    main.append({'k': 'print', 'items': [[['lit', '$', '<A>'], '']]})
    shown = []
    for lv, t in [(x, tys[i]) for i, x in enumerate(targets)] + watch:
        if dep and dep['kind'] == 'index' and lv == targets[1]:
            continue               # its three elements are all in the watch list
        main.append({'k': 'print', 'items': [[lv, '']]})
        shown.append([lv, t])
    main.append({'k': 'gosub', 'label': 'gz'})
    main.append({'k': 'print', 'items': [[['call', 'fz%', [['lit', '%', 3]]], '']]})
    main.append({'k': 'print', 'items': [[['lit', '$', '<D>'], '']]})
    main.append({'k': 'end'})
    if place == 'gosub':
        main.append({'k': 'label', 'name': 'gi'})
        main.append(inp)
        main.append({'k': 'return'})
    main.append({'k': 'label', 'name': 'gz'})
    main.append({'k': 'print', 'items': [[['lit', '$', '<G>'], '']]})
    main.append({'k': 'return'})
    if handler:
        main.append({'k': 'label', 'name': 'hnd'})
        main.append({'k': 'print', 'items': [[['lit', '$', '<H>'], ';'], [['dev', 'err', []], '']]})
        main.append({'k': 'resume', 'next': True})
    procs.append({'kind': 'function', 'name': 'fz%', 'params': [['q%', '%', False]], 'static': False,
                  'body': [{'k': 'let', 'lv': ['var', 'fz%'],
                            'e': ['bin', '*', ['var', 'q%'], ['lit', '%', 2]]}]})
    prog = {'types': types, 'main': main, 'procs': procs}
    number_stmts(prog)
    spec = {'types': tys, 'prompt': inp['prompt'], 'psep': inp['psep'], 'lead': inp['semi'],
            'place': place, 'handler': handler, 'dep': dep,
            'targets': targets, 'shown': shown,
            'watch': [[t, INIT[t]] for _, t in watch], 'init': noinit}
    return prog, spec


def good_field(r, t):
    if t == '%':
        v = r.choice((0, 1, -1, 7, 32767, -32768, r.randint(-999, 999)))
        s = str(v)
    elif t == '&':
        v = r.choice((0, -5, 70000, 2147483647, -2147483648, r.randint(-10 ** 6, 10 ** 6)))
        s = str(v)
    elif t in '!#':
        v = r.choice((0.0, 1.5, -0.25, 100.0, 3.0, 1024.125, -7.75))
        s = repr(v) if r.random() < 0.7 or v != int(v) else str(int(v))
    else:
        v = r.choice(('hello', 'x y', 'a.b', '12', 'q', 'Mixed Case', ''))
        return v, v
    if r.random() < 0.25:
        s = ' ' * r.randint(1, 2) + s + ' ' * r.randint(0, 2)
    if r.random() < 0.1 and not s.strip().startswith('-'):
        s = '+' + s.strip()
    return s, v


def bad_field(r, t, cls):
    if cls == 'alpha':
        return r.choice(('abc', 'x1', '12a', 'one', '1 2', '-', '1-', '0x10'))
    if cls == 'range':
        if t == '%':
            return r.choice(('32768', '-32769', '40000', '99999999'))
        if t == '!':
            # plain decimals beyond the SINGLE range (3.4E38)
            # (also just above the largest SINGLE, where the value rounds to
            # infinity in single precision: 3.40282357E+38)
            return r.choice(('4' + '0' * 38, '-4' + '0' * 38, '1' + '0' * 39 + '.5',
                             '340282357' + '0' * 30, '-340282357' + '0' * 30,
                             '34028236' + '0' * 31))
        if t == '#':
            return r.choice(('1' + '0' * 309, '-2' + '0' * 310))
        return r.choice(('2147483648', '-2147483649', '3000000000', '99999999999'))
    if cls == 'pyspell':
        if t in '%&':
            return r.choice(('1_0', '1_000', '3_2767'))
        return r.choice(('nan', 'inf', '-inf', 'infinity', '1_0.5', 'NaN'))
    raise ValueError(cls)


def make_responses(r, tys, nrej):
    """[(line, accepted?, class, position)] ending with an accepted line."""
    out = []
    numeric = [i for i, t in enumerate(tys) if t != '$']
    for _ in range(nrej):
        fields = [good_field(r, t)[0] for t in tys]
        choices = ['many']
        if len(tys) >= 2:
            choices.append('few')
        if numeric:
            choices += ['alpha', 'alpha', 'pyspell']
            choices.append('range')
        cls = r.choice(choices)
        pos = None
        if cls == 'few':
            pos = r.randrange(len(fields))
            del fields[pos]
        elif cls == 'many':
            fields.append(r.choice(('1', 'x', '')))
        else:
            cand = numeric
            pos = r.choice(cand)
            fields[pos] = bad_field(r, tys[pos], cls)
        out.append([','.join(fields), False, cls, pos])
    gs = [good_field(r, t) for t in tys]
    out.append([','.join(g[0] for g in gs), True, 'good', None])
    return out, [g[1] for g in gs]


def build(params):
    s = params['seed']
    r = stream(s, 'program')
    prog, spec = build_program(r)
    text, pr = to_text(prog, final_newline=r.random() < 0.8)
    rr = stream(s, 'responses')
    nrej = rr.choice((0, 1, 1, 2, 3, 4))
    resp, values = make_responses(rr, spec['types'], nrej)
    if spec.get('dep') and spec['dep']['kind'] == 'index':
        lb = spec['dep']['lb']
        values[0] = rr.choice((lb + 1, lb + 2, lb + 2))
        fs = resp[-1][0].split(',')
        fs[0] = str(values[0])
        resp[-1][0] = ','.join(fs)
    rc = stream(s, 'config')
    return {'property': PROP, 'run_seed': s, 'source': 'gen:input', 'text': text, 'ast': prog,
            'spec': spec, 'responses': resp, 'values': values,
            'config': {'opt': rc.choice((0, 1, 2)), 'dbg': rc.random() < 0.7,
                       'impl': rc.choice(('sim', 'sim', 'dumb'))},
            'plan': None, 'enumerate': True, 'meta': {}}


def run_params(params):
    return execute(build(params))


def replay(scn):
    return execute(scn).violations


def minimise(v, max_runs=120):
    return minimise_responses(v, max_runs)


def minimise_responses(v, max_runs):
    """Drop rejected lines one at a time while the class persists."""
    import copy
    best = v
    runs = 0
    i = 0
    while runs < max_runs and i < len(best['scenario']['responses']) - 1:
        c = copy.deepcopy(best['scenario'])
        del c['responses'][i]
        runs += 1
        hit = [x for x in replay(c) if x['cls'] == v['cls']]
        if hit:
            best = hit[0]
        else:
            i += 1
    best = dict(best)
    best['minimised'] = {'replays': runs}
    return best


# ---------------------------------------------------------------------------
# protocol model


def f32(x):
    return struct.unpack('>f', struct.pack('>f', x))[0]


def expected_value(t, v):
    if t == '!':
        return f32(float(v))
    if t == '#':
        return float(v)
    return v


def shown_segments(history):
    """Text shown between consecutive terminal_input calls."""
    segs, cur = [], ''
    for h in history:
        if h[0] == 'terminal_print':
            cur += h[1]
        elif h[0] == 'terminal_input':
            segs.append(cur)
            cur = ''
    return segs, cur


def _mk(scn, plan):
    s = {k: scn[k] for k in ('property', 'run_seed', 'source', 'text', 'ast', 'spec',
                             'responses', 'values', 'config', 'meta')}
    s['plan'] = plan
    s['enumerate'] = False
    return s


def check_run(scn, co, plan, res):
    spec = scn['spec']
    cfg = scn['config']
    script = {'input_lines': [x[0] for x in scn['responses']], 'inkey': [], 'rnd': [0.5],
              'clock0': 0.0, 'deltas': [0.0], 'peek': [0]}
    mi_impl = cfg.get('impl', 'sim')
    from ..world import ModInfo, Sim
    from ..monitors import Monitor
    mi = ModInfo.get(co.bytes)
    sim = Sim(mi, script, plan, budget=CAP, record_io=True, impl_kind=mi_impl)
    mon = Monitor(sim, types=True)
    out = sim.run()
    mon.sweep()
    res.evals += 1
    res.ticks += out['ticks']
    for k, n in sim.fired.items():
        res.count('fired_' + k, n)
    hist = sim.history
    kinds = [f['kind'] for f in plan]
    tys = spec['types']
    nrej = len(scn['responses']) - 1
    if not plan:
        res.count('histories_with_%d_rejections' % nrej)
        for x in scn['responses'][:-1]:
            res.count('rejected_class_' + x[2])
            if x[3] is not None and x[3] > 0:
                res.count('probe_bad_later_field')
    res.nontrivial.add(digest([scn['text'], cfg, scn['responses'], plan]))
    res.states.add((tuple(tys), spec['place'], spec['prompt'] is not None, spec['psep'],
                    nrej, tuple(kinds)))

    def bad(cls, detail):
        res.violation(cls, dict(detail, plan=plan, outcome=out, config=cfg), _mk(scn, plan),
                      sig=dict(mon.sig()))
    for cls, d in mon.problems:
        if cls == 'C03:stack-depth':
            bad('C18:stack-residue', d)
        else:
            bad('C18:' + cls.split(':', 1)[1], d)
        return
    if out['exc'] is not None:
        bad('C18:crash', {'exc': out['exc']})
        return
    dumb_sameline = (mi_impl == 'dumb' and spec['lead'])
    if plan:
        # injected failure / interrupt: no target may have been assigned when
        # the fault hit the INPUT statement itself
        at = plan[0].get('at')
        tp = typed_prints(sim.io_events)
        vals = [x[1] for x in tp if len(x) == 2]
        if kinds[0] in ('F1', 'F4') and spec['handler'] and out['halt'] == 'INSTRUCTION':
            # handler armed: INPUT was abandoned, the tail ran: targets keep
            # their initial values
            if spec.get('shown') is not None:
                exp = expected_shown(spec, None)
            else:
                exp = [[CELL[t], expected_value(t, INIT[t])] for t in tys]
            got = _tail_values(tp, len(exp))
            if got is not None and plan[0].get('in_input'):
                if got != exp:
                    bad('C18:assigned-after-failure', {'expected': exp, 'got': got})
        res.count('faulted_runs_checked')
        return
    if dumb_sameline:
        # "INPUT ;" cannot be served by the dumb terminal: a device failure
        if not (out['halt'] in ('TRAP', 'INSTRUCTION')):
            bad('C18:protocol', {'what': 'same-line input on dumb terminal', 'out': out})
        return
    # --- protocol -----------------------------------------------------------
    segs, rest = shown_segments(hist)
    prompt = spec['prompt'] or ''
    q = '? ' if (spec['prompt'] is None or spec['psep'] == ';') else ''
    first = '<S>\r\n' + prompt + q
    redo = prompt + q
    if len(segs) != nrej + 1:
        cls = 'C18:accepted-bad-line' if len(segs) < nrej + 1 else 'C18:rejected-good-line'
        i = min(len(segs), nrej + 1) - 1
        bad(cls, {'attempts_expected': nrej + 1, 'attempts_seen': len(segs),
                  'responses': scn['responses'], 'types': tys})
        return
    for i, sgm in enumerate(segs):
        if i == 0:
            ok = sgm == first
        else:
            ok = sgm.startswith('Redo from start') and sgm[len('Redo from start'):].lstrip('\r\n') == redo \
                and sgm[len('Redo from start'):].startswith('\r\n')
        if not ok:
            bad('C18:protocol', {'attempt': i, 'shown': sgm,
                                 'expected': first if i == 0 else 'Redo from start\r\n' + redo})
            return
    inputs = [h for h in hist if h[0] == 'terminal_input']
    if any(bool(h[1]) != bool(spec['lead']) for h in inputs):
        bad('C18:protocol', {'what': 'same-line flag', 'calls': inputs})
        return
    if out['halt'] != 'INSTRUCTION' or out['hang']:
        bad('C18:later-divergence', {'what': 'program did not end normally', 'out': out})
        return
    # --- assignment ---------------------------------------------------------
    tp = typed_prints(sim.io_events)
    if spec.get('shown') is not None:
        exp = expected_shown(spec, scn['values'])
        got = _tail_values(tp, len(exp))
        ntargets = sum(1 for lv, t in spec['shown'] if lv in spec['targets'])
    else:
        got = _tail_values(tp, len(tys) + len(spec['watch']))
        exp = [[CELL[t], expected_value(t, v)] for t, v in zip(tys, scn['values'])]
        exp += [[CELL[t], expected_value(t, v)] for t, v in spec['watch']]
        ntargets = len(tys)
    if got is None:
        bad('C18:later-divergence', {'what': 'tail prints missing', 'prints': tp[-12:]})
        return
    if got[:ntargets] != exp[:ntargets] or (spec.get('dep') and got != exp):
        bad('C18:wrong-assignment', {'expected': exp, 'got': got,
                                     'line': scn['responses'][-1][0], 'dependent': spec.get('dep')})
        return
    if got != exp:
        bad('C18:other-location-changed', {'expected': exp, 'got': got})
        return
    texts = [h[1] for h in hist if h[0] == 'terminal_print']
    tail = ''.join(texts)
    if not tail.endswith('<G>\r\n 6 \r\n<D>\r\n'):
        bad('C18:later-divergence', {'what': 'GOSUB/RETURN/FUNCTION after INPUT', 'tail': tail[-60:]})
        return
    res.count('accepted_histories_checked')


def expected_shown(spec, values):
    """Sequential model: fields are assigned to the targets in order (a later
    target's subscript sees an earlier target's new value); everything else
    keeps its initial value."""
    env = {}

    def key(lv):
        if lv[0] == 'var':
            return ('v', lv[1])
        if lv[0] == 'idx':
            i = lv[2][0]
            iv = i[2] if i[0] == 'lit' else env.get(('v', i[1]))
            return ('e', lv[1], iv)
        return ('f', repr(lv))
    dep = spec.get('dep')
    for (lv, t) in spec['shown']:
        env.setdefault(key(lv), expected_value(t, spec.get('init', {}).get(repr(lv), INIT[t])))
    if dep and dep['kind'] == 'index':
        env[('v', 'ix%')] = dep['lb']
    if values is not None:
        # targets passed to a SUB by reference are located when the call is
        # made, i.e. with the old value of the subscript variable
        early = None
        if dep and dep['kind'] == 'index' and spec['place'] == 'sub':
            early = key(spec['targets'][1])
        for n, (lv, t, v) in enumerate(zip(spec['targets'], spec['types'], values)):
            k = early if (early is not None and n == 1) else key(lv)
            env[k] = expected_value(t, v)
    return [[CELL[t], env[key(lv)]] for lv, t in spec['shown']]


def _tail_values(tp, n):
    """Typed values of the n single-item PRINTs following the <A> marker."""
    idx = None
    for i, x in enumerate(tp):
        if x == [['INTEGER', 0], ['STRING', '<A>']] or x == [('INTEGER', 0), ('STRING', '<A>')]:
            idx = i
    if idx is None:
        return None
    vals = []
    for x in tp[idx + 1: idx + 1 + n]:
        if len(x) != 2:
            return None
        vals.append([x[1][0], x[1][1]])
    if len(vals) != n:
        return None
    return vals


def execute(scn):
    res = Result()
    cfg = scn['config']
    co = compile_source(scn['text'], cfg['opt'], cfg['dbg'])
    res.evals += 1
    if not co.ok:
        res.violation('C18:workload-rejected', {'compile': repr(co)}, _mk(scn, []), sig={})
        return res
    if not scn.get('enumerate'):
        check_run(scn, co, scn['plan'] or [], res)
        return res
    check_run(scn, co, [], res)
    if res.sample is None:
        res.sample = {'text': scn['text'], 'responses': scn['responses'], 'config': cfg,
                      'spec': scn['spec']}
    if res.violations:
        return res
    # faults inside the statement: device call indices of the first attempt
    nrej = len(scn['responses']) - 1
    spec = scn['spec']
    base = 1                      # the <S> print
    calls = 2 + (1 if (spec['prompt'] is None or spec['psep'] == ';') else 0)
    for d in range(base + 1, base + 1 + calls * (nrej + 1) + nrej):
        for kind in ('F1', 'F5b'):
            check_run(scn, co, [{'kind': kind, 'at': d, 'code': False, 'in_input': True}], res)
    for j in range(1, nrej + 2):
        check_run(scn, co, [{'kind': 'F4', 'at': j, 'mode': 'none', 'in_input': True}], res)
    return res
