"""C02 - see props/replica.py."""
from ..core import H
from ..minimise import minimise_scenario
from . import replica

PROP = 'C02'
BUDGET = {'quick': 70, 'thorough': 1500}
MAX_BATCHES = {'quick': 40, 'thorough': 4000}
PER_BATCH = 64


def make_params(seed, tier, batch_no):
    return [{'seed': H(seed, PROP, batch_no, i), 'i': batch_no * PER_BATCH + i,
             'tier': tier} for i in range(PER_BATCH)]


def run_params(params):
    return replica.execute(PROP, replica.build(PROP, params))


def replay(scn):
    return replica.execute(PROP, scn).violations


def minimise(v, max_runs=220):
    return minimise_scenario(v, replay, max_runs)
