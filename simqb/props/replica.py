"""Replica equivalence (C02: optimisation levels, C08: debug info).

One scenario (program text, device script, fault plan in configuration
independent coordinates: the k-th device call fails / is interrupted) is run
on several replicas that differ only in the compiler configuration; the
recorded histories and outcomes must not diverge."""
from ..core import H, stream, compile_source, digest, split_sections
from ..harness import Result
from ..runlib import run_once, outcome_key, typed_prints, first_diff
from ..gen import const_program
from ..qast import to_text
from .. import scen
from ..minimise import minimise_scenario

CAP = 60000


def build(prop, params):
    s = params['seed']
    r = stream(s, 'config')
    k = params['i'] % 10
    if (prop == 'C02' and k in (0, 1, 2, 3, 4, 5)) or (prop == 'C08' and k in (0, 1, 2, 3)):
        rp = stream(s, 'program')
        prog = const_program(rp)
        text, pr = to_text(prog)
        sc = {'source': 'gen:const', 'text': text, 'ast': prog,
              'script': scen.default_script(), 'meta': {}}
    elif k == 9:
        sc = scen.corpus_scenario(r, idx=params['i'] // 10)
    elif prop == 'C08' and k in (4, 5):
        # handlers that never resume (END, re-raise, RETURN) are the error
        # handling programs this property covers in full (no RESUME exemption):
        # errors at module level, in GOSUB routines and in procedures called
        # from them
        sc = scen.generated_scenario(
            s, family='any', onerror=True, gosub=True, procs=True, devices=True,
            onerror_mode=r.choice(('goto_return', 'goto_end', 'goto_reraise', 'goto_return')))
    else:
        force = {}
        if prop == 'C02' and r.random() < 0.5:
            force['fold_heavy'] = True
        sc = scen.generated_scenario(s, **force)
    return {'property': prop, 'run_seed': s, 'source': sc['source'],
            'text': sc['text'], 'ast': sc['ast'], 'script': sc['script'],
            'meta': {k: v for k, v in sc['meta'].items() if k in ('plant', 'pos')},
            'plan': None, 'enumerate': True, 'sample_seed': H(s, 'faults')}


def replicas_for(prop):
    if prop == 'C02':
        # reference replica first; compared within one debug setting
        return [[(0, g), (1, g), (2, g), (3, g)] for g in (False, True)]
    return [[(o, False), (o, True)] for o in (0, 1, 2)]


def _mk(scn, plan, group=None):
    s = {k: scn[k] for k in ('property', 'run_seed', 'source', 'text', 'ast',
                             'script', 'meta')}
    s['plan'] = plan
    s['enumerate'] = False
    if group is not None:
        s['group'] = group
    return s


def compare_group(prop, scn, group, plan, res, cos):
    """Run all replicas of the group under one plan; report divergence."""
    runs = []
    for cfg in group:
        co = cos[cfg]
        r = run_once(co, scn['script'], plan, budget=CAP, types=False)
        res.evals += 1
        res.ticks += r['out']['ticks']
        res.sim_seconds += r['sim_seconds']
        for k, n in r['fired'].items():
            res.count('fired_' + k, n)
        runs.append(r)
    ref = runs[0]
    if any(r['out']['hang'] for r in runs):
        res.count('inconclusive_budget_exhausted')
        return runs
    both_dbg = all(g for _, g in group)
    for cfg, r in zip(group[1:], runs[1:]):
        same = (ref['history'] == r['history']
                and typed_prints(ref['io']) == typed_prints(r['io'])
                and outcome_key(ref['out'], both_dbg) == outcome_key(r['out'], both_dbg))
        if same:
            continue
        if prop == 'C08' and (r['resumed'] or ref['resumed']):
            # the only permitted difference: RESUME [NEXT] needs the debug
            # section.  The replica without it must stop with CANNOT_RESUME
            # after a prefix of the other's interactions.
            nog, withg = (ref, r) if not group[0][1] else (r, ref)
            res.count('resume_exempt')
            ok = (nog['out']['halt'] == 'TRAP' and nog['out']['trap'] == 'CANNOT_RESUME'
                  and nog['history'] == withg['history'][:len(nog['history'])])
            if not ok:
                res.violation(f'{prop}:replica-divergence:resume-exemption',
                              {'nog': nog['out'], 'withg': withg['out'], 'plan': plan,
                               'configs': [group[0], cfg]},
                              _mk(scn, plan, group), sig={'axis': 'dbg'})
            continue
        d = first_diff(ref['history'], r['history'])
        if d is not None:
            res.violation(f'{prop}:replica-divergence:history',
                          {'configs': [group[0], cfg], 'index': d[0],
                           'ref': d[1], 'got': d[2], 'plan': plan},
                          _mk(scn, plan, group), sig={'what': 'history'})
            continue
        tp = first_diff(typed_prints(ref['io']), typed_prints(r['io']))
        if tp is not None:
            res.violation(f'{prop}:replica-divergence:print-types',
                          {'configs': [group[0], cfg], 'index': tp[0],
                           'ref': tp[1], 'got': tp[2], 'plan': plan},
                          _mk(scn, plan, group), sig={'what': 'print-types'})
            continue
        if outcome_key(ref['out'], both_dbg) != outcome_key(r['out'], both_dbg):
            res.violation(f'{prop}:replica-divergence:outcome',
                          {'configs': [group[0], cfg], 'ref': ref['out'],
                           'got': r['out'], 'plan': plan},
                          _mk(scn, plan, group), sig={'what': 'outcome'})
    if plan and any(r['fired'] for r in runs):
        res.nontrivial.add(digest([scn['text'], group, plan]))
        ev = ref['events'][-1] if ref['events'] else None
        res.states.add((plan[0]['kind'], ev['code'] if ev else None,
                        ev['mode'] if ev else None,
                        min(ev['excess'] or 0, 4) if ev else None,
                        min(ev['frames'], 3) if ev else None))
    return runs


def execute(prop, scn):
    res = Result()
    groups = replicas_for(prop)
    if scn.get('group'):
        groups = [[tuple(c) for c in scn['group']]]
    cfgs = sorted({c for g in groups for c in g})
    cos = {c: compile_source(scn['text'], c[0], c[1]) for c in cfgs}
    res.evals += len(cfgs)
    # acceptance must not depend on the configuration
    keys = {c: cos[c].key() for c in cfgs}
    crash = [c for c in cfgs if cos[c].status == 'crash']
    if len(set(keys.values())) > 1:
        ref = cfgs[0]
        bad = [c for c in cfgs if keys[c] != keys[ref]][0]
        res.violation(f'{prop}:acceptance',
                      {'configs': [ref, bad], 'ref': repr(cos[ref]), 'got': repr(cos[bad])},
                      _mk(scn, []), sig={'ref': keys[ref][0], 'got': keys[bad][0],
                                         'exc': cos[bad].exc_type or cos[ref].exc_type})
        return res
    if crash:
        if prop == 'C02':
            c = crash[0]
            res.violation('C02:compiler-crash',
                          {'config': c, 'crash': repr(cos[c])}, _mk(scn, []),
                          sig={'exc': cos[c].exc_type, 'where': cos[c].where})
        else:
            res.count('compiler_crash_all_configs')
        return res
    if not cos[cfgs[0]].ok:
        res.count('rejected_by_all_configs')
        return res
    if prop == 'C08':
        # load-time sanity check (static, reported as such): sections 1-3
        for o in (0, 1, 2):
            a = split_sections(cos[(o, False)].bytes)
            b = split_sections(cos[(o, True)].bytes)
            for sid in (1, 2, 3):
                if a.get(sid) != b.get(sid):
                    res.violation('C08:sections-differ',
                                  {'opt': o, 'section': sid}, _mk(scn, []),
                                  sig={'section': sid})
                    return res
        res.count('static_section_comparisons', 3)

    plan0 = scn['plan'] or []
    if not scn.get('enumerate'):
        for g in groups:
            compare_group(prop, scn, g, plan0, res, cos)
        return res

    r = stream(scn['sample_seed'], 'faults')
    for g in groups:
        runs = compare_group(prop, scn, g, [], res, cos)
        ref = runs[0]
        if res.sample is None:
            res.sample = {'source': scn['source'], 'group': g,
                          'text_head': scn['text'][:400], 'outcome': ref['out'],
                          'history_head': ref['history'][:6]}
        res.nontrivial.add(digest([scn['text'], g, 'fault-free']))
        res.count('fault_free_groups')
        if res.violations or ref['out']['hang'] or ref['out']['exc']:
            continue
        D = len(ref['history'])
        ds = list(range(1, D + 1)) if D <= 24 else sorted(r.sample(range(1, D + 1), 24))
        if scn['source'] == 'gen:const':
            # the interesting values are computed by the compiler; two faulted
            # runs suffice, the budget goes into more programs
            ds = ds[:1] + ds[-1:] if D > 1 else ds
        nv = len(res.violations)
        for d in ds:
            for kind in ('F1', 'F5b'):
                f = {'kind': kind, 'at': d}
                if kind == 'F1':
                    f['code'] = bool(d & 1)
                compare_group(prop, scn, g, [f], res, cos)
            if len(res.violations) - nv > 4:
                break
    return res
