"""C12 - debugger stepping and breakpoints are transparent and stop correctly.

Workload: generated (any/ref) and repository programs compiled with -g at
-O0/-O1/-O2; knobs: final newline, autostatus cur/curi/off.
Schedule space: histories of up to 30 operator commands (step, next, stepi,
nexti, continue, break <line|routine|0xaddr>, delbr, read-only commands,
garbage), continuing after the machine has halted or trapped.
Oracle: the free run of the same module under the same device script is the
reference (transparency); the property's sentences about step / next /
breakpoints are evaluated over the free run's per-tick trace.
"""
from ..core import H, stream, compile_source, digest
from ..world import ModInfo, Sim
from ..harness import Result
from ..monitors import frame_depth
from .. import scen
from ..minimise import minimise_scenario

PROP = 'C12'
BUDGET = {'quick': 70, 'thorough': 1500}
MAX_BATCHES = {'quick': 40, 'thorough': 4000}
PER_BATCH = 64
CAP = 30000

SIMPLE = ('AssignmentStmt', 'PrintStmt', 'CallStmt', 'GosubStmt', 'GotoStmt', 'InputStmt',
          'ReadStmt', 'BeepStmt', 'SoundStmt', 'PokeStmt', 'DefSegStmt', 'ClsStmt',
          'RandomizeStmt', 'ReturnValueSetStmt', 'EndStmt', 'ReturnStmt', 'RestoreStmt',
          'ColorStmt', 'LocateStmt', 'ScreenStmt', 'WidthStmt', 'ViewPrintStmt', 'PlayStmt',
          'OnErrorStmt', 'ResumeStmt', 'ExitSubStmt', 'ExitFunctionStmt', 'ExitDoStmt',
          'ExitForStmt', 'KillStmt', 'BloadStmt', 'BsaveStmt')


def make_params(seed, tier, batch_no):
    return [{'seed': H(seed, PROP, batch_no, i), 'i': batch_no * PER_BATCH + i,
             'tier': tier} for i in range(PER_BATCH)]


def build(params):
    s = params['seed']
    r = stream(s, 'config')
    if params['i'] % 4 == 3:
        sc = scen.corpus_scenario(r, idx=params['i'] // 4)
    else:
        force = {}
        if r.random() < 0.4:
            # call-heavy programs: nested and recursive calls to step/next over
            force = {'procs': True, 'recursion': True, 'size': r.choice((10, 16, 24))}
        if r.random() < 0.25:
            # an armed handler that reads ERR, and planted run-time errors:
            # stops between the error and the handler's statements
            force.update(onerror=True, plant=True, plants=r.choice((1, 2)),
                         onerror_mode=r.choice(('goto_next', 'goto_next', 'resume_next',
                                                'goto_end', 'goto_reraise')))
        else:
            force.update(onerror=False, onerror_mode=None, plant=r.random() < 0.2)
        force.setdefault('procs_mid', 0.3)
        sc = scen.generated_scenario(s, **force)
    nlines = sc['text'].count('\n') + 1
    proc_lines = []
    inside = False
    for i, ln in enumerate(sc['text'].split('\n'), 1):
        t = ln.strip().lower()
        if t.startswith('sub ') or t.startswith('function '):
            inside = True
        elif t.startswith('end sub') or t.startswith('end function'):
            inside = False
        elif inside:
            proc_lines.append(i)
    histories = [gen_history(stream(H(s, 'operator', j), 'ops'), nlines, proc_lines)
                 for j in range(5)]
    return {'property': PROP, 'run_seed': s, 'source': sc['source'], 'text': sc['text'],
            'ast': sc['ast'], 'script': sc['script'], 'meta': {},
            'config': {'opt': r.choice((0, 1, 2)), 'dbg': True,
                       'autostatus': r.choice(('cur', 'curi', 'off'))},
            'operators': histories, 'operator': None, 'pick_seed': H(s, 'picks'),
            'plan': None, 'irq_frac': (r.random() if r.random() < 0.25 else None)}


def gen_history(ro, nlines, proc_lines=()):
    cmds = []
    style = ro.choice(('mixed', 'mixed', 'steps', 'nexts', 'breaks', 'dive', 'procbp', 'dupbp'))
    if style == 'dupbp':
        # two breakpoints that resolve to one address (the same line twice, a
        # line and the one before it, which may be blank or a comment), one of
        # them deleted again: the other one must go on stopping `continue`
        ln = ro.randint(2, max(2, nlines))
        cmds += ['break %d' % ln, 'break %d' % ro.choice((ln, ln, ln - 1))]
        cmds += [ro.choice(('continue', 'step', 'next')) for _ in range(ro.randint(0, 3))]
        cmds.append('delbr %d' % ln)
        cmds += ['continue'] * ro.randint(1, 4)
        style = 'mixed'
    if style == 'procbp':
        # a breakpoint inside a procedure, then next / continue around calls to it
        if proc_lines:
            for _ in range(ro.randint(1, 2)):
                cmds.append('break %d' % ro.choice(proc_lines))
        cmds += [ro.choice(('next', 'next', 'nexti', 'continue', 'step')) for _ in range(ro.randint(2, 12))]
        if ro.random() < 0.6:
            cmds.append('delbr @any')
        style = ro.choice(('nexts', 'mixed'))
    if style == 'dive':
        # step down into the call chain, then next/step around in there
        cmds += ['step'] * ro.randint(2, 25)
        style = 'nexts' if ro.random() < 0.7 else 'mixed'
    for _ in range(ro.randint(3, 30)):
        x = ro.random()
        if style == 'steps':
            x = x * 0.3
        elif style == 'nexts':
            x = 0.3 + x * 0.2
        elif style == 'breaks' and x < 0.5:
            x = 0.73 + x * 0.2
        if x < 0.30:
            cmds.append('step')
        elif x < 0.50:
            cmds.append('next')
        elif x < 0.58:
            cmds.append('stepi')
        elif x < 0.63:
            cmds.append('nexti')
        elif x < 0.73:
            cmds.append('continue')
        elif x < 0.83:
            cmds.append('break %d' % ro.randint(1, nlines))
        elif x < 0.85:
            cmds.append('break @routine')
        elif x < 0.87:
            cmds.append('break @addr')
        elif x < 0.91:
            cmds.append('delbr @any')
        elif x < 0.98:
            cmds.append(ro.choice(('print 1 + 1', 'bt', 'cur', 'curi', 'stack', 'autostatus',
                                   'break', 'help')))
        else:
            cmds.append(ro.choice(('break zzz', 'break 99999', 'delbr 1', 'break 0xzz', 'frobnicate',
                                   'break -3', '')))
    return cmds


def run_params(params):
    return execute(build(params))


def replay(scn):
    return execute(scn).violations


def minimise(v, max_runs=160):
    return minimise_scenario(v, replay, max_runs)


# ---------------------------------------------------------------------------


def free_trace(mi, script, plan=()):
    sim = Sim(mi, script, plan, budget=CAP)
    PC, ST, DP, HL = [0], [mi.stmt_at(0)], [0], [0]
    GD = [0]     # GOSUBs pending in the current frame

    def post(s, n):
        cpu = s.cpu
        PC.append(cpu.pc)
        ST.append(None if cpu.halted else mi.stmt_at(cpu.pc))
        ins = mi.instrs.get(cpu.pc)
        # about to execute `frame`: logically already inside the callee
        DP.append(frame_depth(cpu) + (1 if ins is not None and ins[0] == 'frame' else 0))
        HL.append(len(s.history))
        GD.append(getattr(cpu.cur_frame, 'gosub_depth', 0) if cpu.cur_frame is not None else 0)
    sim.post_hooks.append(post)
    out = sim.run()
    sim.gosub_trace = GD
    return sim, out, PC, ST, DP, HL


def _mk(scn):
    d = {k: scn[k] for k in ('property', 'run_seed', 'source', 'text', 'ast', 'script',
                             'meta', 'config', 'operator', 'pick_seed')}
    d['plan'] = scn.get('plan')
    d['irq_frac'] = None
    d['operators'] = None
    return d


def execute(scn):
    res = Result()
    cfg = scn['config']
    co = compile_source(scn['text'], cfg['opt'], True)
    res.evals += 1
    if not co.ok:
        res.count('not_accepted_' + co.status)
        return res
    mi = ModInfo.get(co.bytes)
    fsim, fout, PC, ST, DP, HL = free_trace(mi, scn['script'])
    if fout['hang'] or fout['exc']:
        res.count('free_run_unusable')
        return res
    plan = scn.get('plan')
    if plan is None and scn.get('irq_frac') is not None and fout['ticks'] > 2:
        # an interrupt request arriving while some command is executing
        # (F5a: delivered right before the instruction; F5p: pending when the
        # previous instruction completes, so that a command can return to the
        # prompt or re-enter run() with the request outstanding)
        k = int(scn['irq_frac'] * (fout['ticks'] - 1))
        plan = [{'kind': 'F5p' if (k >= 1 and int(scn['irq_frac'] * 1000) % 2) else 'F5a', 'tick': k}]
    if plan:
        scn = dict(scn, plan=plan)
        fsim, fout, PC, ST, DP, HL = free_trace(mi, scn['script'], plan)
        res.count('sessions_with_interrupt')
        if fout['hang'] or fout['exc']:
            res.count('free_run_unusable')
            return res
    T = fout['ticks']
    fhist = fsim.history
    lists = [scn['operator']] if scn.get('operator') is not None else scn['operators']
    for ops in lists:
        one = dict(scn, operator=ops, operators=None)
        debug_run(one, mi, res, fout, fhist, T, PC, ST, DP, HL, fsim.gosub_trace)
        if res.violations:
            break
    return res


def debug_run(scn, mi, res, fout, fhist, T, PC, ST, DP, HL, GD=None):
    cfg = scn['config']

    def bad(cls, detail, sig=None):
        res.violation(cls, detail, _mk(scn), sig=sig or {})

    # --- the debugged run ---------------------------------------------------
    from qvm.dbg import Cmd
    sim = Sim(mi, scn['script'], scn.get('plan') or (), budget=T + 50, fresh_module=True)
    box = {}

    def start():
        box['dbg'] = Cmd(sim.machine, sim.module)
    sim.guarded(start)
    if sim.exc is not None or 'dbg' not in box:
        bad('C12:crash', {'where': 'start', 'exc': sim.exc})
        return res
    dbg = box['dbg']
    dbg.auto_status = cfg.get('autostatus', 'cur')
    cpu = sim.cpu
    rp = stream(scn['pick_seed'], 'picks')
    stmt_lines = sorted({s[2] for s in mi.stmts if s[1] > s[0]})
    routines = [r[2] for r in mi.routines]
    bps = []             # model of the active breakpoints: (start, end|None)
    stops = []           # ticks at which a step/next stopped
    n_cmds = 0
    res.evals += 1
    res.ticks += T

    def cur_stmt():
        return None if cpu.halted else mi.stmt_at(cpu.pc)

    def model_bp_hit(n):
        pc = PC[n]
        return any((pc == a) if b is None else (a <= pc < b) for a, b in bps)

    def spec_to_range(arg):
        if arg.startswith('0x'):
            try:
                return (int(arg, 16), None)
            except ValueError:
                return None
        if arg.isnumeric():
            A = _addr_for_line(mi, stmt_lines, int(arg))
            return None if A is None else (A, None)
        for a, b, name in mi.routines:
            if name == arg.lower():
                return (a, b)
        return None

    cmds = list(scn['operator'])
    # afterwards: drop all breakpoints and run to the end
    tail = ['delbr @all', 'continue', 'continue']
    finished_seen = False
    for idx, raw in enumerate(cmds + tail):
        is_tail = idx >= len(cmds)
        cmd = raw
        t = sim.ticks
        st0 = cur_stmt() if t <= T else None
        d0 = DP[t] if t <= T else frame_depth(cpu)
        halted0 = cpu.halted
        # resolve symbolic picks deterministically
        if cmd == 'break @routine':
            cmd = 'break ' + (rp.choice(routines) if routines else 'nosuch')
        elif cmd == 'break @addr':
            a = rp.choice(sorted(mi.instrs))
            cmd = 'break 0x%x' % a
        elif cmd == 'delbr @any':
            allb = sorted({mi.line_of(a) for a, b in bps if b is None and mi.line_of(a)})
            cmd = 'delbr %d' % (rp.choice(allb) if allb else rp.randint(1, 50))
        if cmd == 'delbr @all':
            for bp in list(cpu.breakpoints):
                cpu.del_breakpoint(bp)
            bps[:] = []
            continue
        word = cmd.split(' ')[0] if cmd else ''
        arg = cmd[len(word):].strip()
        nbp_before = len(cpu.breakpoints)
        sim.exc = None
        sim.hang = False
        sim.guarded(lambda: dbg.onecmd(cmd))
        n_cmds += 1
        res.count('cmd_' + (word or 'empty'))
        res.states.add((word, st0[6] if st0 else None, min(d0, 4), halted0))
        n = sim.ticks
        if sim.exc is not None:
            bad('C12:crash', {'cmd': cmd, 'index': idx, 'exc': sim.exc,
                              'halted_before': halted0},
                sig={'exc_type': sim.exc['type'], 'where': sim.exc['where'], 'cmd': word})
            return res
        if sim.hang or n > T:
            bad('C12:not-transparent', {'what': 'executed past the end state of the free run',
                                        'cmd': cmd, 'index': idx, 'ticks': n, 'free_ticks': T,
                                        'free_outcome': fout}, sig={'cmd': word, 'kind': 'overrun'})
            return res
        # transparency: device history is a prefix of the free run's
        h = sim.history
        if h != fhist[:len(h)] or len(h) != HL[n]:
            bad('C12:not-transparent', {'what': 'device interactions differ from the free run',
                                        'cmd': cmd, 'index': idx, 'at_tick': n,
                                        'got': h[-2:], 'free': fhist[max(0, len(h) - 2):len(h)]},
                sig={'cmd': word, 'kind': 'history'})
            return res
        if cpu.pc != PC[n]:
            bad('C12:not-transparent', {'what': 'pc differs from the free run at the same tick',
                                        'cmd': cmd, 'pc': cpu.pc, 'free_pc': PC[n], 'tick': n},
                sig={'cmd': word, 'kind': 'pc'})
            return res
        if halted0 and n != t:
            bad('C12:not-transparent', {'what': 'instructions executed after the program ended',
                                        'cmd': cmd, 'index': idx}, sig={'cmd': word, 'kind': 'after-halt'})
            return res
        finished = (n == T)
        st1 = None if finished else ST[n]
        # breakpoint bookkeeping (model) -----------------------------------
        if word == 'break' and arg and len(cpu.breakpoints) == nbp_before + 1:
            bp = cpu.breakpoints[-1]
            rng = spec_to_range(arg)
            if rng is None or bp.start_addr != rng[0]:
                bad('C12:breakpoint-placement',
                    {'spec': arg, 'expected': rng, 'got_addr': bp.start_addr}, sig={})
                return res
            bps.append(rng)
            if arg.isnumeric():
                res.count('line_breakpoints_set')
        elif word == 'delbr' and len(cpu.breakpoints) == nbp_before - 1:
            rng = spec_to_range(arg)
            if rng in bps:
                bps.remove(rng)
            else:
                bad('C12:breakpoint-placement', {'what': 'delbr removed a breakpoint the model does not have',
                                                 'spec': arg}, sig={})
                return res
            res.count('breakpoints_deleted')
        # step / next / continue models -----------------------------------
        if word in ('step', 'next') and not halted0:
            if n <= t and not finished:
                bad('C12:no-progress', {'cmd': cmd, 'index': idx, 'tick': t}, sig={'cmd': word})
                return res
            by_bp = model_bp_hit(n) and not finished
            if not finished and not by_bp and (st1 is None or st1 == st0):
                bad('C12:step-model', {'what': 'returned in the same statement (or in none)',
                                       'cmd': cmd, 'index': idx, 'tick': n,
                                       'line': st1[2] if st1 else None}, sig={'cmd': word})
                return res
            # (RESUME / RESUME NEXT in a handler goes back into the suspended
            # procedure the error occurred in: deeper, but not a call)
            if word == 'next' and not finished and not by_bp and DP[n] > d0 \
                    and not (st0 is not None and st0[6] == 'ResumeStmt'):
                bad('C12:next-entered-callee', {'cmd': cmd, 'index': idx, 'tick': n,
                                                'depth_before': d0, 'depth_after': DP[n],
                                                'line': st1[2] if st1 else None}, sig={})
                return res
            if word == 'step':
                stops.append((t, n))
                # completeness: no executed simple statement may be skipped
                for u in range(t + 1, n):
                    s_u = ST[u]
                    if s_u is not None and s_u != st0 and s_u != ST[u - 1] \
                            and PC[u] == s_u[0] and s_u[6] in SIMPLE:
                        bad('C12:step-model', {'what': 'a step skipped an executed simple statement',
                                               'cmd': cmd, 'index': idx, 'from_tick': t, 'to_tick': n,
                                               'skipped_line': s_u[2], 'skipped_at_tick': u},
                            sig={'cmd': 'step', 'kind': 'skipped'})
                        return res
                res.count('steps_checked')
            else:
                res.count('nexts_checked')
        if word == 'continue' and not halted0:
            # must stop at the first breakpoint hit after t, or run to the end
            want = T
            for u in range(t + 1, T + 1):
                if u < T and model_bp_hit(u):
                    want = u
                    break
            if n != want:
                cls = 'C12:breakpoint-missed' if n > want else 'C12:breakpoint-spurious'
                bad(cls, {'cmd': cmd, 'index': idx, 'from_tick': t, 'stopped_at_tick': n,
                          'expected_tick': want, 'breakpoints': list(bps),
                          'stopped_line': st1[2] if st1 else None},
                    sig={'kind': 'continue'})
                return res
            if want < T:
                res.count('breakpoint_stops_checked')
                hits = sum(1 for u in range(1, n + 1) if PC[u] == PC[n])
                if hits >= 2:
                    res.count('probe_breakpoint_hit_twice')
            else:
                res.count('continue_to_end_checked')
        # ... nor inside a GOSUB routine the current statement called (same
        # frame, more GOSUBs pending), e.g. a routine that GOSUBs itself
        if word == 'next' and not halted0 and not finished and GD is not None and t <= T \
                and not (model_bp_hit(n)) and DP[n] == d0 and GD[n] > GD[t] \
                and st0 is not None and st0[6] != 'ResumeStmt':
            bad('C12:next-entered-callee', {'cmd': cmd, 'index': idx, 'tick': n, 'what': 'GOSUB routine',
                                            'gosubs_before': GD[t], 'gosubs_after': GD[n],
                                            'line': st1[2] if st1 else None}, sig={'kind': 'gosub'})
            return res
        if word in ('step', 'next') and DP[n] != d0:
            res.count('probe_step_changed_frame_depth')
    # end state must equal the free run's
    if sim.ticks != T or sim.history != fhist:
        bad('C12:not-transparent', {'what': 'final state differs from the free run',
                                    'ticks': sim.ticks, 'free_ticks': T}, sig={'kind': 'final'})
        return res
    o = sim.outcome()
    if (o['halt'], o['trap']) != (fout['halt'], fout['trap']):
        bad('C12:not-transparent', {'what': 'final outcome differs', 'got': o, 'free': fout},
            sig={'kind': 'outcome'})
        return res
    res.nontrivial.add(digest([scn['text'], cfg, scn['operator']]))
    if res.sample is None:
        res.sample = {'source': scn['source'], 'config': cfg, 'operator': scn['operator'],
                      'free_ticks': T, 'text_head': scn['text'][:300]}
    return res


def _addr_for_line(mi, stmt_lines, L):
    cand = [ln for ln in stmt_lines if ln >= L]
    if not cand:
        return None
    recs = sorted([s for s in mi.stmts if s[2] == cand[0] and s[1] > s[0]], key=lambda s: s[4])
    return recs[0][0]
