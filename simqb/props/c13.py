"""C13 - debugger expression evaluation agrees with the running program.

Workload: reference-subset programs compiled with -g.
Schedule: the stop point - reached by line breakpoint + continue (j-th
arrival), by stepping, or by running to the end - in the main program and in
procedure frames; at each stop several `print <expr>` commands over the names
in scope, plus unknown names, out-of-range subscripts, wrong index counts and
unparsable text.
Oracle: "the value the program itself would obtain": a twin of the program with
PRINT <expr> inserted before the stopped statement runs freely on the real
machine; the typed operands of the j-th execution of that PRINT are the
expected values.  Every print must leave the machine state unchanged and must
not raise out of the debugger.
"""
import copy
import re

from ..core import H, stream, compile_source, digest
from ..world import ModInfo, Sim, state_digest
from ..harness import Result
from ..qast import (to_text, number_stmts, all_bodies, sub_bodies, name_type, pe, TypeEnv, strip_names,
                    expr_type, CMP, LOGIC, RANK)
from .. import scen
from ..minimise import minimise_scenario

PROP = 'C13'
BUDGET = {'quick': 70, 'thorough': 1500}
MAX_BATCHES = {'quick': 40, 'thorough': 4000}
PER_BATCH = 64
CAP = 30000
TMARK = '<T>'


def make_params(seed, tier, batch_no):
    return [{'seed': H(seed, PROP, batch_no, i), 'i': batch_no * PER_BATCH + i,
             'tier': tier} for i in range(PER_BATCH)]


# ---------------------------------------------------------------------------
# names visible at a statement (textual approximation; the twin decides truth)


class Names:
    def __init__(self):
        self.scalars = {}    # name -> type
        self.arrays = {}     # name -> (elemtype, bounds or None)
        self.records = {}    # name -> type

    def var_type(self, n):
        if n in self.scalars:
            return self.scalars[n]
        if n in self.records:
            return self.records[n]
        return name_type(n)

    def array_type(self, n):
        return self.arrays[n][0]


def lit_bounds(bs):
    out = []
    for lb, ub in bs:
        if (lb is not None and lb[0] != 'lit') or ub[0] != 'lit':
            return None
        # (a bound that is not a whole number is rounded half to even)
        out.append((0 if lb is None else int(round(lb[2])), int(round(ub[2]))))
    return out


def collect(prog, target_id):
    """Names in scope at statement `target_id` and the routine that holds it."""
    env = TypeEnv(prog)
    names = Names()
    names.env = env
    shared = Names()

    def scan(body, into, stop):
        for s in body:
            if s.get('id') == stop:
                return True
            k = s['k']
            if k == 'let' and s['lv'][0] == 'var' and name_type(s['lv'][1]):
                into.scalars.setdefault(s['lv'][1], name_type(s['lv'][1]))
            elif k == 'dim':
                tgt = shared if s.get('shared') else into
                if s.get('bounds') is not None:
                    tgt.arrays[s['name']] = (s['ty'], lit_bounds(s['bounds']))
                elif s['ty'].startswith('T:'):
                    tgt.records[s['name']] = s['ty']
                else:
                    tgt.scalars[s['name']] = s['ty']
            elif k == 'static':
                into.scalars[s['name']] = s['ty']
            elif k == 'const':
                t = name_type(s['name'])
                if t is None:
                    try:
                        t = expr_type(s['e'], into)
                    except Exception:
                        t = None
                if t:
                    into.scalars[s['name']] = t
            elif k in ('for',):
                into.scalars.setdefault(s['var'], name_type(s['var']))
            for sub in sub_bodies(s):
                if scan(sub, into, stop):
                    return True
        return False
    main = Names()
    in_main = scan(prog['main'], main, target_id)
    # shared declarations and global consts come from the whole main text
    g = Names()
    scan(prog['main'], g, None)
    def const_type(st):
        t = name_type(st['name'])
        if t is None:
            try:
                t = expr_type(st['e'], main)
            except Exception:
                t = None
        return t
    consts = {s['name']: const_type(s) for s in prog['main'] if s['k'] == 'const'}
    routine = None
    if in_main:
        names.scalars.update(main.scalars)
        names.arrays.update(main.arrays)
        names.records.update(main.records)
        routine = '_main'
    else:
        for p in prog.get('procs', []):
            loc = Names()
            for pn, pty, isarr in p['params']:
                if isarr:
                    loc.arrays[pn] = (pty, None)
                elif pty.startswith('T:'):
                    loc.records[pn] = pty
                else:
                    loc.scalars[pn] = pty
            if scan(p['body'], loc, target_id):
                names.scalars.update(loc.scalars)
                names.arrays.update(loc.arrays)
                names.records.update(loc.records)
                routine = p['name']
                break
    names.scalars.update({k: v for k, v in consts.items() if v})
    if routine not in (None, '_main'):
        # a module-level CONST that the routine re-defines *further down*: in
        # front of that CONST statement the program still means the outer one,
        # while the debugger knows the routine's constants as a set - not a
        # question this check asks
        def const_names(body, out):
            for s_ in body:
                if s_['k'] == 'const':
                    out.add(s_['name'])
                for sub in sub_bodies(s_):
                    const_names(sub, out)
        later = set()
        for p_ in prog.get('procs', []):
            if p_['name'] == routine:
                const_names(p_['body'], later)
        for n_ in later:
            if n_ in names.scalars and n_ in consts and n_ not in loc.scalars:
                del names.scalars[n_]
    names.scalars.update(shared.scalars)
    names.arrays.update(shared.arrays)
    names.records.update(shared.records)
    return names, routine


def gen_expr(r, names, depth):
    env = names.env
    if 'nb1&' in names.scalars and 'nb2!' in names.scalars and r.random() < 0.15:
        a, b = ['var', 'nb1&'], ['var', 'nb2!']
        if r.random() < 0.5:
            a, b = b, a
        return ['bin', r.choice(CMP), a, b]

    def leaf(want=None):
        c = []
        for n, t in names.scalars.items():
            if t in '%&!#$':
                c.append(['var', n])
        for n, (t, bs) in names.arrays.items():
            if bs is None:
                continue
            idx = [['lit', '%', r.randint(lb, ub)] for lb, ub in bs]
            if r.random() < 0.2:
                # a subscript that is not a whole number: converted like any
                # other value (round half to even), so x.5 goes to the even side
                d = r.randrange(len(bs))
                j = idx[d][2]
                f = j + r.choice((-0.5, 0.5)) if j % 2 == 0 else j + r.choice((-0.25, 0.25))
                idx[d] = ['lit', r.choice('!#'), f]
            if t.startswith('T:'):
                for path, lt in env.leaves(t):
                    c.append(['fld', ['idx', n, idx], path])
            else:
                c.append(['idx', n, idx])
        for n, t in names.records.items():
            for path, lt in env.leaves(t):
                c.append(['fld', ['var', n], path])
        if want == 'num':
            c = [x for x in c if expr_type(x, names) != '$']
        elif want == 'str':
            c = [x for x in c if expr_type(x, names) == '$']
        if not c or r.random() < 0.12:
            if want == 'str':
                return ['lit', '$', r.choice(('a', 'xy', ''))]
            return ['lit', r.choice('%&!#'), r.choice((0, 1, 2, 3, 7))]
        return r.choice(c)

    def num(d):
        if d <= 0 or r.random() < 0.35:
            return leaf('num')
        x = r.random()
        if x < 0.5:
            return ['bin', r.choice(('+', '-', '*')), num(d - 1), num(d - 1)]
        if x < 0.62:
            return ['bin', r.choice(CMP), num(d - 1), num(d - 1)]
        if x < 0.7:
            return ['un', 'neg', num(d - 1)]
        if x < 0.78:
            return ['par', num(d - 1)]
        if x < 0.86:
            a, b = num(d - 1), num(d - 1)
            if expr_type(a, names) in '%&' and expr_type(b, names) in '%&':
                return ['bin', r.choice(LOGIC), a, b]
            return ['bin', '+', a, b]
        if x < 0.93:
            return ['bin', r.choice(('\\', 'mod')), num(d - 1), ['lit', '%', r.choice((2, 3, 5, -2))]]
        return ['bin', '/', num(d - 1), ['lit', '%', r.choice((2, 4, -2))]]
    if r.random() < 0.2:
        a = leaf('str')
        if r.random() < 0.5:
            return ['bin', '+', a, leaf('str')]
        if r.random() < 0.5:
            return ['bin', r.choice(CMP), a, leaf('str')]
        return a
    return num(depth)


def oob_prints(r, names):
    """Subscripts outside the declared bounds (below and above, at a random
    dimension) and wrong index counts: must be reported as evaluation errors."""
    out = []
    scal = [n for n, t in sorted(names.scalars.items()) if t in '%&!#$' and n not in names.arrays]
    if scal and r.random() < 0.4:
        # a subscript or a field on a scalar or a constant
        n = r.choice(scal)
        out.append(n + r.choice(('(1)', '.fa', '(0, 1)', '.fa.fb')))
    arrs = [(n, t, bs) for n, (t, bs) in sorted(names.arrays.items()) if bs]
    for _ in range(r.randint(0, 2)):
        if not arrs:
            break
        n, t, bs = r.choice(arrs)
        idx = [r.randint(lb, ub) for lb, ub in bs]
        d = r.randrange(len(bs))
        lb, ub = bs[d]
        k = r.random()
        if k < 0.45:
            idx[d] = lb - r.choice((1, 1, 2, ub - lb + 1))
        elif k < 0.9:
            idx[d] = ub + r.choice((1, 2, 10))
        else:
            idx = idx + [idx[0]] if r.random() < 0.5 or len(idx) == 1 else idx[:-1]
        text = '%s(%s)' % (n, ', '.join(str(i) for i in idx))
        if t.startswith('T:'):
            leaves = names.env.leaves(t)
            text += '.' + '.'.join(leaves[0][0])
        out.append(text)
    return out


BAD_PRINTS = ('nosuchvar%', 'zz9$', '1 +', ') (', 'x% ++ ', 'print', '"abc', '1 2', '',
              'nosuch(1)', '@', 'a.b.c.d', 'len("ab")', 'abs(-3)', 'rnd', 'chr$(65)', 'timer',
              '1 \\ 0', '1 / 0', '32767 + 1', 'instr("abc", "b") + 1')


def candidate_stops(prog):
    """Statements that sit on a line of their own, directly in a block list."""
    out = []

    def walk(body, where):
        for s in body:
            # (loop statements are re-entered at their header on every
            # iteration, where an inserted PRINT would not execute)
            if s['k'] in ('let', 'print', 'call', 'gosub', 'sound', 'poke', 'beep', 'end',
                          'return', 'if', 'select', 'read', 'input',
                          'randomize', 'cls', 'defseg', 'exit'):
                out.append((s['id'], where))
            for sub in sub_bodies(s):
                if s['k'] not in ('multi', 'ifl'):
                    walk(sub, where)
    walk(prog['main'], '_main')
    for p in prog.get('procs', []):
        walk(p['body'], p['name'])
    return out


def insert_before(prog, target_id, stmt):
    for body in all_bodies(prog):
        for i, s in enumerate(body):
            if s.get('id') == target_id:
                body.insert(i, stmt)
                return True
    return False


def build(params):
    s = params['seed']
    r = stream(s, 'config')
    sc = scen.generated_scenario(s, family='ref', raw=False, wild_index=False,
                                 onerror=False, onerror_mode=None, plant=False,
                                 devfuncs=False, procs=r.random() < 0.75, as_collide=0.8, join=0,
                                 records=r.random() < 0.7, arrays=r.random() < 0.8)
    script = dict(sc['script'], deltas=[0.0])
    if r.random() < 0.5:
        # two variables whose values are neighbours across types: a LONG that
        # no SINGLE can hold exactly, and the SINGLE next to it
        main = sc['ast']['main']
        at = 0
        while at < len(main) and main[at]['k'] in ('dim', 'const', 'label', 'static'):
            at += 1
        main[at:at] = [{'k': 'let', 'lv': ['var', 'nb1&'], 'e': ['lit', '&', 16777217]},
                       {'k': 'let', 'lv': ['var', 'nb2!'], 'e': ['lit', '!', 16777216.0]}]
        number_stmts(sc['ast'])
        sc['text'], _ = to_text(sc['ast'], final_newline=sc['text'].endswith('\n'))
    return {'property': PROP, 'run_seed': s, 'source': sc['source'], 'text': sc['text'],
            'ast': sc['ast'], 'script': script, 'meta': {},
            'config': {'opt': r.choice((0, 1, 2))}, 'stops': None, 'pick_seed': H(s, 'stops')}


def run_params(params):
    return execute(build(params))


def replay(scn):
    return execute(scn).violations


def minimise(v, max_runs=120):
    return v


# ---------------------------------------------------------------------------


def leaves_of(e, out):
    if e[0] in ('var', 'idx', 'fld'):
        if e not in out:
            out.append(e)
        return
    for x in e[1:]:
        if isinstance(x, list) and x and isinstance(x[0], str):
            leaves_of(x, out)
        elif isinstance(x, list):
            for y in x:
                if isinstance(y, list) and y and isinstance(y[0], str):
                    leaves_of(y, out)


def base_name(e):
    while e[0] == 'fld':
        e = e[1]
    return e[1]


def twin_values(scn, stop_id, exprs, opt):
    """Typed values of the expressions (followed by the values of their
    leaves) at every arrival at stop_id."""
    prog = copy.deepcopy(scn['ast'])
    items = [[['lit', '$', TMARK], ';']] + [[e, ';'] for e in exprs]
    items[-1][1] = ''
    if not insert_before(prog, stop_id, {'k': 'print', 'items': items}):
        return None
    text, _ = to_text(prog, final_newline=scn['text'].endswith('\n'))
    co = compile_source(text, opt, False)
    if not co.ok:
        return ('rejected', repr(co))
    sim = Sim(ModInfo.get(co.bytes), scn['script'], budget=CAP, record_io=True)
    out = sim.run()
    vals = []
    for e in sim.io_events:
        if e[2] == 2 and e[3] == 2 and isinstance(e[4], list) and len(e[4]) >= 2 \
                and e[4][1] == ('STRING', TMARK):
            row = [a for a in e[4][2:] if a[0] != 'INTEGER' or True]
            # items are (INTEGER,0),(type,value) pairs separated by (INTEGER,1)
            v = []
            i = 2
            args = e[4]
            while i < len(args):
                if args[i] == ('INTEGER', 1) and (i + 1 >= len(args) or args[i + 1] == ('INTEGER', 0)):
                    i += 1
                    continue
                if args[i] == ('INTEGER', 0) and i + 1 < len(args):
                    v.append(args[i + 1])
                    i += 2
                    continue
                i += 1
            vals.append(v)
    return ('ok', vals, out)


def parse_printed(text):
    t = text.strip('\n')
    return t


def same_value(printed, typed):
    ty, val = typed
    if ty == 'STRING':
        return printed == val
    try:
        return float(printed) == float(val)
    except ValueError:
        return False


def execute(scn):
    res = Result()
    opt = scn['config']['opt']
    co = compile_source(scn['text'], opt, True)
    res.evals += 1
    if not co.ok:
        res.count('not_accepted_' + co.status)
        return res
    mi = ModInfo.get(co.bytes)
    _, pr = to_text(scn['ast'], final_newline=scn['text'].endswith('\n'))
    pos = pr.pos
    rp = stream(scn['pick_seed'], 'stops')
    stops = scn['stops']
    if stops is None:
        # only statements the free run actually reaches are worth stopping at
        fsim = Sim(mi, scn['script'], budget=CAP)
        seen = set()
        first = {}

        def visit(s_, n):
            seen.add(s_.cpu.pc)
            first.setdefault(s_.cpu.pc, len(first))
        fsim.post_hooks.append(visit)
        fsim.run()
        lines = {mi.stmt_starts[a][2] for a in seen if a in mi.stmt_starts}
        cands = [c for c in candidate_stops(scn['ast'])
                 if pos.get(c[0]) and pos[c[0]][0] in lines]
        # stops inside procedure frames are the interesting ones: weight 4
        cands = cands + [c for c in cands if c[1] != '_main'] * 3
        stops = []
        if cands:
            for _ in range(3):
                sid, where = rp.choice(cands)
                names, routine = collect(scn['ast'], sid)
                exprs = []
                for _ in range(rp.randint(1, 5)):
                    try:
                        exprs.append(gen_expr(rp, names, rp.choice((0, 1, 2))))
                    except Exception:
                        pass
                if rp.random() < 0.3 and names.scalars:
                    # a value the type cannot hold: must not crash the debugger
                    nm = rp.choice(sorted(names.scalars))
                    if names.scalars[nm] in ('%', '&'):
                        exprs.append(['bin', '*', ['bin', '+', ['var', nm], ['lit', '%', 3]],
                                      ['lit', names.scalars[nm], 30000 if names.scalars[nm] == '%' else 2000000000]])
                if exprs:
                    stops.append({'id': sid, 'j': rp.choice((1, 1, 2, 3)), 'exprs': exprs,
                                  'oob': oob_prints(rp, names),
                                  'bad': [rp.choice(BAD_PRINTS) for _ in range(rp.randint(0, 2))],
                                  'how': rp.choice(('break', 'break', 'step'))})
        stops.append({'id': None, 'j': 1, 'exprs': [], 'bad': [rp.choice(BAD_PRINTS)],
                      'how': 'finish'})
        if cands and rp.random() < 0.7:
            scn['chain_stops'] = make_chain(rp, scn, cands, mi, pos, first)
    if scn.get('chain'):
        run_chain(scn, stops, mi, pos, res, opt)
        return res
    if scn.get('chain_stops'):
        run_chain(scn, scn['chain_stops'], mi, pos, res, opt)
        if res.violations:
            return res
    for st in stops:
        one_stop(scn, st, mi, pos, res, opt)
        if res.violations:
            break
    return res


def names_of(e, out):
    if e[0] in ('var', 'idx'):
        out.add(e[1])
    for x in e[1:]:
        if isinstance(x, list):
            if x and isinstance(x[0], str):
                names_of(x, out)
            else:
                for y in x:
                    if isinstance(y, list) and y and isinstance(y[0], str):
                        names_of(y, out)


def make_chain(rp, scn, cands, mi, pos, first):
    """2-4 stops for one session, in the order the free run first reaches
    them; a later stop re-uses the expression texts of earlier stops whose
    names also exist in its scope (possibly with other types or values)."""
    picked = []
    for _ in range(rp.randint(2, 4)):
        c = rp.choice(cands)
        if c not in picked:
            picked.append(c)

    def when(c):
        a = stop_address(mi, pos[c[0]][0])
        return first.get(a, 10 ** 9)
    picked.sort(key=when)
    chain = []
    earlier = []
    # expressions over names that exist (by spelling) at two of the stops -
    # a SHARED variable, a constant, or two different variables that happen to
    # have one name in two routines: the same text is printed at both
    scopes = [collect(scn['ast'], sid)[0] for sid, _ in picked]
    common_exprs = {i: [] for i in range(len(picked))}
    for i in range(len(picked)):
        for k in range(i + 1, len(picked)):
            if picked[i][1] == picked[k][1]:
                continue
            both = [n for n, t in sorted(scopes[i].scalars.items())
                    if t in '%&!#' and scopes[k].scalars.get(n, '$') in '%&!#']
            if not both:
                continue
            sub = Names()
            sub.env = scopes[i].env
            sub.scalars = {n: scopes[i].scalars[n] for n in both}
            for _ in range(2):
                try:
                    e = gen_expr(rp, sub, rp.choice((1, 1, 2)))
                    expr_type(e, scopes[k])
                except Exception:
                    continue
                common_exprs[i].append(e)
                common_exprs[k].append(e)
    for n_, (sid, where) in enumerate(picked):
        names, routine = scopes[n_], None
        exprs = list(common_exprs[n_][:3])
        for _ in range(rp.randint(1, 3)):
            try:
                exprs.append(gen_expr(rp, names, rp.choice((0, 1, 2))))
            except Exception:
                pass
        known = set(names.scalars) | set(names.arrays) | set(names.records)
        for e in earlier:
            ns = set()
            names_of(e, ns)
            if ns and ns <= known and e not in exprs and rp.random() < 0.8:
                try:
                    expr_type(e, names)
                except Exception:
                    continue
                exprs.append(e)
        earlier += [e for e in exprs if e not in earlier]
        chain.append({'id': sid, 'j': None, 'where': where, 'exprs': exprs[:6], 'oob': oob_prints(rp, names),
                      'bad': [rp.choice(BAD_PRINTS) for _ in range(rp.randint(0, 2))],
                      'bad_first': rp.random() < 0.6, 'how': 'chain'})
    return chain


def _mk(scn, st):
    d = {k: scn[k] for k in ('property', 'run_seed', 'source', 'text', 'ast', 'script',
                             'meta', 'config', 'pick_seed')}
    d['stops'] = [st]
    return d


def open_session(scn, mi, bad):
    from qvm.dbg import Cmd
    sim = Sim(mi, scn['script'], budget=CAP, fresh_module=True)
    box = {}
    sim.guarded(lambda: box.setdefault('dbg', Cmd(sim.machine, sim.module)))
    if sim.exc is not None or 'dbg' not in box:
        bad('C13:crash', {'where': 'start', 'exc': sim.exc})
        return None, None
    dbg = box['dbg']
    dbg.auto_status = 'off'
    return sim, dbg


def stop_address(mi, line):
    recs = sorted([s for s in mi.stmts if s[2] == line and s[1] > s[0]], key=lambda s: s[4])
    return recs[0][0] if recs else None


def run_chain(scn, stops, mi, pos, res, opt):
    """One debugger session that visits the stops one after another (line
    breakpoint + continue), printing at each: what an earlier print, an
    earlier failed print or an earlier stop in another routine left behind in
    the debugger must not influence a later evaluation."""
    def bad(cls, detail, sig=None):
        d = {k: scn[k] for k in ('property', 'run_seed', 'source', 'text', 'ast', 'script',
                                 'meta', 'config', 'pick_seed')}
        d['stops'] = stops
        d['chain'] = True
        res.violation(cls, detail, d, sig=sig or {})
    sim, dbg = open_session(scn, mi, bad)
    if sim is None:
        return
    cpu = sim.cpu
    res.evals += 1
    addr = {}
    for st in stops:
        p = pos.get(st['id'])
        if p is not None:
            a = stop_address(mi, p[0])
            if a is not None:
                addr[st['id']] = (p[0], a)
    arrivals = {a: 0 for _, a in addr.values()}

    def count(s_, n):
        pc = s_.cpu.pc
        if pc in arrivals and not s_.cpu.halted:
            arrivals[pc] += 1
    sim.post_hooks.append(count)
    visited = 0
    printed = {}
    for st in stops:
        if st['id'] not in addr:
            continue
        line, A = addr[st['id']]
        sim.guarded(lambda: dbg.onecmd('break %d' % line))
        guard = 0
        while True:
            sim.guarded(lambda: dbg.onecmd('continue'))
            guard += 1
            if cpu.halted or sim.exc is not None or guard > 40 or cpu.pc == A:
                break
        if sim.exc is not None:
            bad('C13:crash', {'where': 'reaching the stop', 'exc': sim.exc})
            return
        sim.guarded(lambda: dbg.onecmd('delbr %d' % line))
        if cpu.halted or cpu.pc != A:
            res.count('chain_stop_not_reached')
            break
        j = arrivals[A]
        leaves = []
        for e in st['exprs']:
            leaves_of(e, leaves)
        tw = twin_values(scn, st['id'], st['exprs'] + leaves, opt)
        res.evals += 1
        expected = None
        if tw is None or tw[0] != 'ok':
            res.count('twin_unusable')
        elif len(tw[1]) >= j >= 1:
            expected = tw[1][j - 1]
        else:
            res.count('stop_without_twin_values')
        visited += 1
        res.count('chain_stops_visited')
        for e in st['exprs']:
            t = pe(e)
            if any(w != st.get('where') for w in printed.get(t, ())):
                res.count('chain_same_text_printed_in_two_routines')
                break
        for e in st['exprs']:
            printed.setdefault(pe(e), set()).add(st.get('where'))
        if visited > 1:
            res.count('chain_stops_after_an_earlier_stop')
        st = dict(st, j=j, how='chain')
        if not do_prints(scn, st, sim, dbg, res, expected, leaves, pos, bad):
            return
    if visited > 1:
        res.count('chain_sessions_with_several_stops')


def one_stop(scn, st, mi, pos, res, opt):
    def bad(cls, detail, sig=None):
        res.violation(cls, detail, _mk(scn, st), sig=sig or {})
    sim, dbg = open_session(scn, mi, bad)
    if sim is None:
        return
    cpu = sim.cpu
    res.evals += 1
    expected = None
    leaves = []
    if st['how'] == 'finish':
        for _ in range(3):
            sim.guarded(lambda: dbg.onecmd('continue'))
        if not cpu.halted:
            res.count('stop_not_reached')
            return
        res.count('stops_after_program_finished')
    else:
        p = pos.get(st['id'])
        if p is None:
            res.count('stop_without_position')
            return
        line = p[0]
        leaves = []
        for e in st['exprs']:
            leaves_of(e, leaves)
        tw = twin_values(scn, st['id'], st['exprs'] + leaves, opt)
        res.evals += 1
        if tw is None or tw[0] != 'ok':
            res.count('twin_unusable')
            return
        rows = tw[1]
        if len(rows) < st['j']:
            # the inserted PRINT did not complete there (it trapped, or the
            # arrival does not exist): only crash / state checks apply
            res.count('stop_without_twin_values')
            expected = None
        else:
            expected = rows[st['j'] - 1]
        A = stop_address(mi, line)
        if A is None:
            res.count('stop_line_without_code')
            return
        if st['how'] == 'break':
            sim.guarded(lambda: dbg.onecmd('break %d' % line))
            arrivals = 1 if cpu.pc == A else 0
            guard = 0
            while arrivals < st['j'] and not cpu.halted and guard < 50:
                sim.guarded(lambda: dbg.onecmd('continue'))
                guard += 1
                if cpu.pc == A and not cpu.halted:
                    arrivals += 1
        else:
            arrivals = 1 if cpu.pc == A else 0
            guard = 0
            while arrivals < st['j'] and not cpu.halted and guard < 3000:
                sim.guarded(lambda: dbg.onecmd('step'))
                guard += 1
                if cpu.pc == A and not cpu.halted:
                    arrivals += 1
        if sim.exc is not None:
            bad('C13:crash', {'where': 'reaching the stop', 'exc': sim.exc})
            return
        if cpu.halted or cpu.pc != A or arrivals != st['j']:
            res.count('stop_not_reached')
            return
        res.count('stops_reached_by_' + st['how'])
        fd = 0
        f = cpu.cur_frame
        while f is not None:
            fd += 1
            f = f.prev_frame
        if fd > 1:
            res.count('stops_inside_procedure_frame')
        if fd > 2:
            res.count('stops_with_nested_frames')
    do_prints(scn, st, sim, dbg, res, expected, leaves, pos, bad)


def do_prints(scn, st, sim, dbg, res, expected, leaves, pos, bad):
    """The print commands of one stop.  False after a violation."""
    cpu = sim.cpu
    cmds = [('expr', strip_names(pe(e), scn['ast']), i) for i, e in enumerate(st['exprs'])]
    errs = [('oob', strip_names(b, scn['ast']), None) for b in st.get('oob', [])] + \
           [('bad', b, None) for b in st['bad']]
    # failing prints come first at some stops: an error must leave nothing
    # behind that changes a later evaluation
    cmds = errs + cmds if st.get('bad_first') else cmds + errs
    for kind, text, i in cmds:
        d0 = state_digest(sim)
        nb = len(cpu.breakpoints)
        ticks0 = sim.ticks
        sim.exc = None
        before = len(sim.stdout.getvalue())
        sim.guarded(lambda: dbg.onecmd('print ' + text))
        outp = sim.stdout.getvalue()[before:]
        res.evals += 1
        res.states.add((kind, st['how'], cpu.halted))
        if sim.exc is not None:
            bad('C13:crash', {'print': text, 'exc': sim.exc, 'halted': cpu.halted, 'how': st['how']},
                sig={'exc_type': sim.exc['type'], 'where': sim.exc['where']})
            return False
        if state_digest(sim) != d0 or len(cpu.breakpoints) != nb or sim.ticks != ticks0:
            bad('C13:state-changed', {'print': text}, sig={})
            return False
        if kind == 'bad':
            res.count('error_prints_checked')
            continue
        if kind == 'oob':
            shown = outp.rstrip('\n')
            if not (shown.startswith('Eval error') or shown.startswith('Error parsing')):
                bad('C13:error-not-reported', {'print': text, 'debugger': shown[:200],
                                               'how': st['how']}, sig={'kind': 'subscript'})
                return False
            res.count('out_of_range_prints_checked')
            continue
        if st['how'] == 'finish' or expected is None or i >= len(expected):
            continue
        shown = outp.rstrip('\n')
        if shown.startswith('Eval error') or shown.startswith('Error parsing'):
            if 'does not have a value yet' in shown:
                # allowed only for a location the program never assigned: all
                # leaves with that base name still hold the default value
                nm = shown.split(':', 1)[1].split()[0]
                ne = len(st['exprs'])
                mine = [expected[ne + k][1] for k, lf in enumerate(leaves)
                        if strip_names(base_name(lf), scn['ast']) == nm and ne + k < len(expected)]
                if mine and all(v in (0, 0.0, '') for v in mine):
                    res.count('inconclusive_unassigned_location')
                    continue
            bad('C13:value', {'print': text, 'debugger': shown, 'program': expected[i],
                              'stop_line': pos.get(st['id']), 'how': st['how'], 'arrival': st['j']},
                sig={'kind': 'error-instead-of-value', 'msg': shown.split(':')[0][:40] + ':' +
                     shown.split(':', 1)[-1].strip()[:30]})
            return False
        if not same_value(shown, expected[i]):
            bad('C13:value', {'print': text, 'debugger': shown, 'program': expected[i],
                              'stop_line': pos.get(st['id']), 'how': st['how'], 'arrival': st['j']},
                sig={'kind': 'wrong-value'})
            return False
        res.count('values_agreeing')
        res.nontrivial.add(digest([scn['text'], scn['config']['opt'], st['id'], st['j'], text]))
    if res.sample is None and st['exprs']:
        res.sample = {'text_head': scn['text'][:400], 'stop_line': pos.get(st['id']),
                      'arrival': st['j'], 'how': st['how'],
                      'prints': [pe(e) for e in st['exprs']], 'expected': expected}
    return True
