"""C07 - the VM is total; interrupts stop the run.

Workload: any accepted program (generated, both families, + the repository's
own runnable programs) at a drawn compiler configuration.
Fault/schedule space, per scenario: fault-free run, then an interrupt at
*every* tick boundary (sampled when the run is long), a device failure / a
missing device operation / an interrupt inside *every* device call, end of
input at every terminal_input, clock jumps through the script.
Oracle: no host exception escapes; defined end state; planted causes report
the documented category; an interrupt with no handler armed halts on the very
next tick with nothing changed in between.
"""
import copy

from ..core import H, stream, compile_source, digest
from ..world import ModInfo, Sim, state_digest
from ..harness import Result
from ..monitors import Monitor
from .. import scen
from ..minimise import minimise_scenario

PROP = 'C07'
BUDGET = {'quick': 70, 'thorough': 1500}
MAX_BATCHES = {'quick': 40, 'thorough': 4000}
PER_BATCH = 64

CAP = 60000       # tick cap of a fault-free run (longer runs are not used)
DEFINED_HALTS = ('INSTRUCTION', 'END_OF_CODE', 'TRAP')


def make_params(seed, tier, batch_no):
    return [{'seed': H(seed, PROP, batch_no, i), 'i': batch_no * PER_BATCH + i,
             'tier': tier} for i in range(PER_BATCH)]


def build(params):
    s = params['seed']
    r = stream(s, 'config')
    if params['i'] % 5 == 4:
        sc = scen.corpus_scenario(r, idx=params['i'] // 5)
    elif r.random() < 0.3:
        # planted cause, no handler: the reported category must match it
        sc = scen.generated_scenario(s, plant=True, onerror=False, onerror_mode=None,
                                     size=r.choice((6, 10)), goto=False)
    else:
        sc = scen.generated_scenario(s)
    opt, dbg = scen.pick_config(r, need_dbg=True if sc['meta'].get('plant') and r.random() < 0.8 else None)
    return {'property': PROP, 'run_seed': s, 'source': sc['source'],
            'config': {'opt': opt, 'dbg': dbg,
                       'signal_mode': r.choice(('call', 'raise')),
                       'impl': r.choice(('sim', 'sim', 'sim', 'dumb'))},
            'text': sc['text'], 'ast': sc['ast'], 'script': sc['script'],
            'meta': {k: v for k, v in sc['meta'].items() if k in ('plant', 'pos')},
            'plan': None, 'enumerate': True,
            'sample_seed': H(s, 'faults')}


def run_params(params):
    return execute(build(params))


def replay(scn):
    return execute(scn).violations


def _replay_min(scn):
    """For the minimiser: the pinned fault first; when the program was edited
    the fault position may have moved, so fall back to re-enumerating."""
    vs = execute(scn).violations
    if vs or not scn.get('plan'):
        return vs
    c = dict(scn)
    c['enumerate'] = True
    c['sample_seed'] = scn.get('run_seed', 0)
    c['only_kinds'] = sorted({f['kind'] for f in scn['plan']})
    return execute(c).violations


def minimise(v, max_runs=220):
    return minimise_scenario(v, _replay_min, max_runs)


# ---------------------------------------------------------------------------


def _mk(scn, plan):
    s = {k: scn[k] for k in ('property', 'run_seed', 'source', 'config', 'text',
                             'ast', 'script', 'meta')}
    s['plan'] = plan
    s['enumerate'] = False
    return s


def one_run(mi, scn, plan, res, base=None):
    """One simulated run under a fault plan; applies the C07 oracle."""
    cfg = scn['config']
    budget = CAP if base is None else base['ticks'] * 8 + 2000
    sim = Sim(mi, scn['script'], plan, budget=budget,
              signal_mode=cfg.get('signal_mode', 'call'),
              impl_kind=cfg.get('impl', 'sim'))
    info = {'armed': None, 'd0': None, 'at': None, 'op': None, 'hist': None,
            'depth': None, 'frames': None}
    kinds = [f['kind'] for f in plan]

    def frames(cpu):
        n = 0
        f = cpu.cur_frame
        while f is not None:
            n += 1
            f = f.prev_frame
        return n

    if 'F5a' in kinds:
        def pre(sim_, n, irq):
            if irq:
                cpu = sim_.cpu
                info['armed'] = (cpu.trap_target is not None and
                                 not cpu.error_handler_active)
                info['d0'] = state_digest(sim_, halt_fields=False)
                info['at'] = n
                info['hist'] = len(sim_.history)
                ins = mi.instrs.get(cpu.pc)
                info['op'] = ins[0] if ins else None
                info['depth'] = len(cpu.stack)
                info['frames'] = frames(cpu)
        sim.pre_hooks.append(pre)
    if 'F5b' in kinds or 'F1' in kinds or 'F2' in kinds or 'F4' in kinds:
        orig = sim.on_fault_fired

        def fired(kind):
            orig(kind)
            cpu = sim.cpu
            if info['at'] is None and kind in kinds:
                info['armed'] = (cpu.trap_target is not None and
                                 not cpu.error_handler_active)
                info['at'] = sim.ticks
                ins = mi.instrs.get(cpu.prev_pc)
                info['op'] = ins[0] if ins else None
                info['depth'] = len(cpu.stack)
                info['frames'] = frames(cpu)
        sim.on_fault_fired = fired
        if 'F5b' in kinds:
            def post(sim_, n):
                if info['at'] == n and info['d0'] is None:
                    info['d0'] = state_digest(sim_, halt_fields=False)
                    info['hist'] = len(sim_.history)
            sim.post_hooks.append(post)

    mon = Monitor(sim, types=False, depth=True)
    out = sim.run()
    res.evals += 1
    res.ticks += out['ticks']
    res.sim_seconds += sim.impl.sim_seconds
    res.count('runs_on_' + cfg.get('impl', 'sim') + '_peripherals')
    for k, n in sim.fired.items():
        res.count('fired_' + k, n)
    fired_any = bool(sim.fired)
    if plan and fired_any:
        res.nontrivial.add(digest([scn['text'], scn['config'], plan]))
        res.states.add((info['op'], kinds[0], bool(info['armed']),
                        min(info['depth'] or 0, 6), min(info['frames'] or 0, 4)))
        if info['depth']:
            res.count('probe_fault_with_pending_operands')
        if (info['frames'] or 0) > 1:
            res.count('probe_fault_inside_callee')
        if info['op'] == 'frame':
            res.count('probe_interrupt_between_call_and_frame')

    # 1. nothing of the host escapes
    if out['exc'] is not None:
        e = out['exc']
        res.violation(f"C07:host-exception:{e['type']}@{e['where']}",
                      {'exc': e, 'plan': plan, 'ticks': out['ticks']},
                      _mk(scn, plan),
                      sig=dict(mon.sig(), exc_type=e['type'], where=e['where']))
        return sim, out
    # 2. defined end state (budget overruns are counted, see DESIGN: a program
    #    may legitimately loop; only the interrupt case below has a deadline)
    if out['hang']:
        res.count('inconclusive_budget_exhausted')
        if 'F5a' not in kinds and 'F5b' not in kinds:
            return sim, out
    elif out['halt'] not in DEFINED_HALTS:
        res.violation('C07:undefined-end-state', {'out': out, 'plan': plan},
                      _mk(scn, plan), sig={'halt': out['halt']})
        return sim, out

    single = len(plan) == 1
    # 4. interrupt with no handler armed
    if single and kinds[0] in ('F5a', 'F5b') and info['at'] is not None \
            and info['armed'] is False:
        n = info['at']
        if kinds[0] == 'F5a':
            ok = (not out['hang'] and out['halt'] == 'TRAP'
                  and out['trap'] == 'KEYBOARD_INTERRUPT' and out['ticks'] == n + 1)
        else:
            # the interrupted device call completes (tick n), the next tick
            # must take the interrupt - unless tick n ended the program
            ended = out['ticks'] == n + 1 and out['halt'] in ('END_OF_CODE', 'INSTRUCTION', 'TRAP') \
                and out['trap'] != 'KEYBOARD_INTERRUPT'
            ok = ended or (not out['hang'] and out['halt'] == 'TRAP'
                           and out['trap'] == 'KEYBOARD_INTERRUPT'
                           and out['ticks'] == n + 2)
        if not ok:
            res.violation('C07:interrupt-not-immediate',
                          {'out': out, 'delivered_at_tick': n, 'plan': plan},
                          _mk(scn, plan), sig={'fault': kinds[0]})
            return sim, out
        if out['trap'] == 'KEYBOARD_INTERRUPT' and info['d0'] is not None:
            d1 = state_digest(sim, halt_fields=False)
            if d1 != info['d0'] or len(sim.history) != info['hist']:
                res.violation('C07:interrupt-state-changed',
                              {'out': out, 'delivered_at_tick': n, 'plan': plan},
                              _mk(scn, plan), sig={'fault': kinds[0]})
                return sim, out
        res.count('interrupt_unarmed_checked')
    # 3b. device failure with no handler armed is reported as a device error
    if single and kinds[0] in ('F1', 'F2') and info['armed'] is False and fired_any:
        if out['halt'] != 'TRAP' or out['trap'] != 'DEVICE_ERROR':
            res.violation('C07:wrong-category',
                          {'expected': 'DEVICE_ERROR', 'out': out, 'plan': plan},
                          _mk(scn, plan), sig={'fault': kinds[0], 'got': out['trap']})
        else:
            res.count('device_failure_unarmed_checked')
    return sim, out


def execute(scn):
    res = Result()
    cfg = scn['config']
    co = compile_source(scn['text'], cfg['opt'], cfg['dbg'])
    if not co.ok:
        res.count('not_accepted_' + co.status)
        res.evals += 1
        return res
    mi = ModInfo.get(co.bytes)
    if not scn.get('enumerate'):
        one_run(mi, scn, scn['plan'] or [], res,
                base={'ticks': scn.get('base_ticks', CAP // 8)})
        return res

    # fault-free run first
    sim0, base = one_run(mi, scn, [], res)
    res.count('fault_free_runs')
    if res.sample is None:
        res.sample = {'source': scn['source'], 'config': cfg,
                      'text_head': scn['text'][:400], 'fault_free': base,
                      'device_calls': len(sim0.history)}
    if base['exc'] is not None or base['hang']:
        return res
    res.nontrivial.add(digest([scn['text'], cfg, 'fault-free']))
    # 3. planted cause -> documented category (handler not armed)
    plant = scn['meta'].get('plant')
    if plant and cfg['dbg'] and base['halt'] == 'TRAP':
        pos = scn['meta']['pos'].get(str(plant['id']))
        unarmed = 'on error' not in scn['text']
        # (only when the planted statement has its line to itself: the trap is
        # located by line, and another statement of a joined line may fail first)
        alone = pos is not None and \
            sum(1 for k_, v_ in scn['meta']['pos'].items()
                if v_[0] == pos[0] and '.' not in str(k_)) <= 1
        if pos and base['line'] == pos[0] and unarmed and alone:
            res.count('planted_checked_' + plant['kind'])
            if base['trap'] != plant['trap']:
                res.violation('C07:wrong-category',
                              {'expected': plant['trap'], 'kind': plant['kind'],
                               'out': base}, _mk(scn, []),
                              sig={'kind': plant['kind'], 'got': base['trap']})
    T = base['ticks']
    D = len(sim0.history)
    n_in = sum(1 for h in sim0.history if h[0] == 'terminal_input')
    r = stream(scn['sample_seed'], 'faults')
    scn = dict(scn)
    scn['base_ticks'] = T
    nv0 = len(res.violations)
    limit = 400 if scn.get('tier') != 'thorough' else 1500
    only = scn.get('only_kinds')
    # F5a at every tick boundary
    ks = list(range(T)) if T <= limit else sorted(r.sample(range(T), 96))
    if only and 'F5a' not in only:
        ks = []
    for k in ks:
        one_run(mi, scn, [{'kind': 'F5a', 'tick': k}], res, base)
        if len(res.violations) - nv0 > 6:
            break
    # F1 / F2 / F5b inside every device call
    ds = list(range(1, D + 1)) if D <= 60 else sorted(r.sample(range(1, D + 1), 60))
    for d in ds:
        for kind in ('F1', 'F2', 'F5b'):
            if only and kind not in only:
                continue
            f = {'kind': kind, 'at': d}
            if kind == 'F1':
                f['code'] = bool(d & 1)
            one_run(mi, scn, [f], res, base)
        if len(res.violations) - nv0 > 12:
            break
    # F4: end of input at every terminal_input
    for j in range(1, min(n_in, 8) + 1):
        if only and 'F4' not in only:
            break
        for mode in (('none',) if cfg.get('impl', 'sim') == 'sim' else ('eof',)):
            one_run(mi, scn, [{'kind': 'F4', 'at': j, 'mode': mode}], res, base)
    # two faults in one run: a failure and, later, an interrupt
    if D >= 2 and not only:
        for _ in range(min(6, D)):
            d = r.randint(1, D)
            k = r.randint(0, max(T - 1, 0))
            one_run(mi, scn, [{'kind': 'F1', 'at': d, 'code': False},
                              {'kind': 'F5a', 'tick': k}], res, base)
    return res
