"""C03 - type- and stack-safety, as run-time monitors over simulated runs
(fault-free runs, runs with device failures under an armed handler, INPUT redo
loops, planted run-time errors with recovery)."""
from ..core import H, stream, compile_source, digest
from ..harness import Result
from ..runlib import run_once
from .. import scen
from ..minimise import minimise_scenario

PROP = 'C03'
BUDGET = {'quick': 70, 'thorough': 1500}
MAX_BATCHES = {'quick': 40, 'thorough': 4000}
PER_BATCH = 64
CAP = 60000

BAD_LINES = ('', 'x', '1,2,3,4,5,6', ',', 'abc,def', '99999999999', '1e999', 'nan,inf',
             '1_0', '--1', '1,,2', '3.5.1')


def make_params(seed, tier, batch_no):
    return [{'seed': H(seed, PROP, batch_no, i), 'i': batch_no * PER_BATCH + i,
             'tier': tier} for i in range(PER_BATCH)]


def build(params):
    s = params['seed']
    r = stream(s, 'config')
    if params['i'] % 6 == 5:
        sc = scen.corpus_scenario(r, idx=params['i'] // 6)
    else:
        force = {}
        if r.random() < 0.5:
            force['onerror'] = True
            force['onerror_mode'] = r.choice(('goto_next', 'resume_next'))
        if r.random() < 0.5:
            force['plant'] = True
        if r.random() < 0.4:
            force['input'] = True
        sc = scen.generated_scenario(s, **force)
    opt = r.choice((0, 1, 2))
    dbg = r.random() < 0.85
    script = sc['script']
    # response histories with rejected lines in front of the good ones
    rd = stream(s, 'responses')
    lines = []
    for ln in script.get('input_lines', []):
        for _ in range(rd.choice((0, 0, 1, 2))):
            lines.append(rd.choice(BAD_LINES))
        lines.append(ln)
    script = dict(script, input_lines=lines)
    return {'property': PROP, 'run_seed': s, 'source': sc['source'],
            'config': {'opt': opt, 'dbg': dbg}, 'text': sc['text'], 'ast': sc['ast'],
            'script': script, 'meta': {}, 'plan': None, 'enumerate': True,
            'sample_seed': H(s, 'faults')}


def run_params(params):
    return execute(build(params))


def replay(scn):
    return execute(scn).violations


def minimise(v, max_runs=220):
    return minimise_scenario(v, replay, max_runs)


def _mk(scn, plan):
    s = {k: scn[k] for k in ('property', 'run_seed', 'source', 'config', 'text',
                             'ast', 'script', 'meta')}
    s['plan'] = plan
    s['enumerate'] = False
    return s


def one(scn, co, plan, res):
    r = run_once(co, scn['script'], plan, budget=CAP, types=True, sweep_every=8)
    res.evals += 1
    res.ticks += r['out']['ticks']
    res.sim_seconds += r['sim_seconds']
    for k, n in r['fired'].items():
        res.count('fired_' + k, n)
    mon = r['mon']
    res.count('stores_checked', mon.stores_checked)
    res.count('depth_checks', mon.depth_checked)
    res.count('trap_dispatches', mon.dispatches)
    if r['flags'].get('residue'):
        res.count('probe_fault_with_pending_operands')
    if r['flags'].get('hic'):
        res.count('probe_fault_inside_callee')
    if getattr(mon, 'typemap_error', None):
        res.count('typemap_unavailable')
    redo = sum(1 for h in r['history'] if h[0] == 'terminal_print' and h[1] == 'Redo from start\r\n')
    if redo:
        res.count('probe_input_redo', redo)
    if (plan and r['fired']) or not plan:
        res.nontrivial.add(digest([scn['text'], scn['config'], plan]))
    for e in r['events']:
        res.states.add((e['code'], e['mode'], min(e['excess'] or 0, 5), min(e['frames'], 4)))
    for cls, d in r['problems']:
        if not cls.startswith('C03:'):
            continue        # another property's invariant (reported by its own check)
        res.violation(cls, dict(d, plan=plan, outcome=r['out']), _mk(scn, plan),
                      sig=dict(d.get('flags', {})))
    if r['out']['exc'] is not None and r['out']['exc']['type'] in ('AssertionError', 'IndexError'):
        # cell access outside a frame surfaces as a host IndexError/AssertionError
        res.violation('C03:cell-access:' + r['out']['exc']['type'] + '@' + r['out']['exc']['where'],
                      {'exc': r['out']['exc'], 'plan': plan}, _mk(scn, plan),
                      sig=dict(r['flags']))
    return r


def execute(scn):
    res = Result()
    cfg = scn['config']
    co = compile_source(scn['text'], cfg['opt'], cfg['dbg'])
    res.evals += 1
    if not co.ok:
        res.count('not_accepted_' + co.status)
        return res
    if not scn.get('enumerate'):
        one(scn, co, scn['plan'] or [], res)
        return res
    r0 = one(scn, co, [], res)
    if res.sample is None:
        res.sample = {'source': scn['source'], 'config': cfg, 'text_head': scn['text'][:400],
                      'outcome': r0['out'], 'stores_checked': r0['mon'].stores_checked,
                      'depth_checks': r0['mon'].depth_checked}
    if res.violations or r0['out']['hang'] or r0['out']['exc']:
        return res
    D = len(r0['history'])
    r = stream(scn['sample_seed'], 'faults')
    ds = list(range(1, D + 1)) if D <= 16 else sorted(r.sample(range(1, D + 1), 16))
    for d in ds:
        one(scn, co, [{'kind': 'F1', 'at': d, 'code': bool(d & 1)}], res)
        if len(res.violations) > 3:
            break
    # two and three faults in one run (second error after a resume)
    if D >= 3:
        for _ in range(4):
            k = r.choice((2, 3))
            ats = sorted(r.sample(range(1, D + 1), k))
            one(scn, co, [{'kind': 'F1', 'at': a, 'code': False} for a in ats], res)
    return res
