"""C10 - ON ERROR / RESUME / RESUME NEXT follow statement-level semantics.

Workload: reference-subset programs compiled with -g at -O0/-O1/-O2 with an
armed handler of one of the shapes {ON ERROR GOTO h + RESUME NEXT; ON ERROR
GOTO h + repair the cause + RESUME; ON ERROR RESUME NEXT; arm, later ON ERROR
GOTO 0}; the handler prints ERR and a marker.
Fault sequences: 1-3 planted run-time errors (division by zero, overflow,
subscript, illegal argument, out of data / bad data) at expression depth 0-3,
at module level directly, inside IF/FOR/DO/SELECT bodies, on multi-statement
lines and in GOSUB routines; plus a device failure at every device operation
of the fault-free run, singly and in sampled pairs/triples.
Oracle: the reference interpreter under the same fault plan (history equality,
ERR values, resume points, no partial results) and the stack-depth monitor.
"""
from ..core import H, stream, compile_source, digest
from ..harness import Result
from ..ref import Interp, Inconclusive
from .. import scen
from ..minimise import minimise_scenario
from . import c01

PROP = 'C10'
BUDGET = {'quick': 70, 'thorough': 1500}
MAX_BATCHES = {'quick': 40, 'thorough': 4000}
PER_BATCH = 64


def make_params(seed, tier, batch_no):
    return [{'seed': H(seed, PROP, batch_no, i), 'i': batch_no * PER_BATCH + i,
             'tier': tier} for i in range(PER_BATCH)]


def build(params):
    s = params['seed']
    r = stream(s, 'config')
    mode = r.choice(('goto_next', 'goto_next', 'goto_resume', 'resume_next', 'goto_end'))
    sc = scen.generated_scenario(
        s, family='ref', raw=False, wild_index=False, onerror=True, onerror_mode=mode,
        plant=True, plants=r.choice((1, 1, 2, 3)), size=r.choice((6, 10, 16)),
        procs=r.random() < 0.4, input=r.random() < 0.3)
    return {'property': PROP, 'run_seed': s, 'source': sc['source'] + ':' + mode,
            'text': sc['text'], 'ast': sc['ast'], 'script': sc['script'],
            'meta': {k: v for k, v in sc['meta'].items() if k in ('plants', 'pos')},
            'configs': [[0, True], [1, True], [2, True]], 'plan': None, 'enumerate': True,
            'sample_seed': H(s, 'faults')}


def run_params(params):
    return execute(build(params))


def replay(scn):
    return execute(scn).violations


def minimise(v, max_runs=220):
    return minimise_scenario(v, replay, max_runs)


def machine_only(scn, plan, res, cos):
    from ..world import ModInfo, Sim
    from ..monitors import Monitor
    for cfg in scn['configs']:
        co = cos[tuple(cfg)]
        sim = Sim(ModInfo.get(co.bytes), scn['script'], plan, budget=c01.CAP)
        mon = Monitor(sim, types=False, depth=True)
        out = sim.run()
        res.evals += 1
        res.ticks += out['ticks']
        res.count('machine_only_runs')
        if out['hang']:
            res.count('inconclusive_budget_exhausted')
            continue
        for cls, d in mon.problems:
            name = 'stack-residue' if cls == 'C03:stack-depth' else cls.split(':', 1)[1]
            res.violation(f'{PROP}:{name}', dict(d, config=cfg, plan=plan, machine_only=True),
                          c01._mk(scn, plan, cfg), sig=dict(mon.sig()))
            return
        if out['exc'] is not None:
            res.violation(f'{PROP}:outcome', {'what': 'host exception', 'exc': out['exc'],
                                              'config': cfg, 'plan': plan, 'machine_only': True},
                          c01._mk(scn, plan, cfg), sig={'exc': out['exc']['type']})
            return


def execute(scn):
    res = Result()
    cos = {}
    for cfg in scn['configs']:
        co = compile_source(scn['text'], cfg[0], cfg[1])
        res.evals += 1
        if not co.ok:
            res.count('not_accepted_' + co.status)
            return res
        cos[tuple(cfg)] = co
    r = stream(scn.get('sample_seed', 0), 'faults')
    plans = [scn['plan'] or []] if not scn.get('enumerate') else [[]]
    first = True
    while plans:
        plan = plans.pop(0)
        ref = Interp(scn['ast'], scn['script'], plan)
        try:
            ref.run()
        except Inconclusive as e:
            res.count('reference_inconclusive')
            res.count('inconclusive:' + str(e)[:40])
            # no reference history: the machine-level half of the property
            # still applies (dispatch to the armed handler, no operands left
            # behind, no machine fault, no host exception)
            machine_only(scn, plan, res, cos)
            first = False
            if res.violations:
                break
            continue
        ok = c01.compare(scn, plan, res, cos, ref, prop=PROP, monitor=True)
        if first and res.sample is None:
            res.sample = {'source': scn['source'], 'text': scn['text'][:900],
                          'planted': scn['meta'].get('plants'),
                          'reference_events': ref.dev.events[:10],
                          'reference_outcome': ref.outcome}
        if ok and ref.resumed:
            res.nontrivial.add(digest([scn['text'], plan]))
            res.count('runs_with_handled_error')
        if ok and ref.header_errors:
            res.count('probe_handled_error_in_block_header_line', ref.header_errors)
        for k, n in ref.dev.fired.items():
            res.count('reference_fired_' + k, n)
        if first and scn.get('enumerate') and ok:
            ops = [(op, n) for op, cnt in sorted(ref.dev.op_count.items())
                   for n in range(1, cnt + 1) if op != 'data.read']
            if len(ops) > 40:
                ops = r.sample(ops, 40)
            for op, n in ops:
                plans.append([{'kind': 'F1op', 'op': op, 'nth': n}])
            for _ in range(min(8, len(ops))):
                k = r.choice((2, 3))
                if len(ops) >= k:
                    plans.append([{'kind': 'F1op', 'op': op, 'nth': n}
                                  for op, n in r.sample(ops, k)])
        first = False
        if res.violations:
            break
    return res
