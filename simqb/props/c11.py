"""C11 (run-time half) - the debug map attributes instructions to the source
statements that caused them, as far as simulated runs can observe it:

  (a) at every device call the innermost statement record containing the `io`
      instruction is the statement the reference interpreter was executing
      (same source line; the record's source extract is that statement's text);
  (b) at every trap (planted errors, injected device failures) the record
      containing the trapping instruction is the failing statement;
  (c) the simple statements the reference executed appear, in order, among the
      statement starts control passes through.

A structural scan of the map (record boundaries on instruction starts, proper
nesting, coverage of routine bodies) runs on every module as a static sanity
check and is reported as a counter, not as a simulation result."""
from ..core import H, stream, compile_source, digest
from ..world import ModInfo, Sim, IO_NAMES
from ..harness import Result
from ..monitors import Monitor
from ..ref import Interp, Inconclusive
from ..qast import to_text, all_bodies
from .. import scen
from ..minimise import minimise_scenario

PROP = 'C11'
BUDGET = {'quick': 70, 'thorough': 1500}
MAX_BATCHES = {'quick': 40, 'thorough': 4000}
PER_BATCH = 64
CAP = 60000
SIMPLE = ('let', 'print', 'call', 'gosub', 'sound', 'poke', 'beep', 'cls', 'randomize',
          'defseg', 'input', 'read')


def make_params(seed, tier, batch_no):
    return [{'seed': H(seed, PROP, batch_no, i), 'i': batch_no * PER_BATCH + i,
             'tier': tier} for i in range(PER_BATCH)]


def build(params):
    s = params['seed']
    r = stream(s, 'config')
    sc = scen.generated_scenario(s, family='ref', raw=False, wild_index=False,
                                 plant=r.random() < 0.6, multi=r.random() < 0.7)
    return {'property': PROP, 'run_seed': s, 'source': sc['source'], 'text': sc['text'],
            'ast': sc['ast'], 'script': sc['script'], 'meta': {},
            'configs': [[r.choice((0, 1, 2)), True], [r.choice((0, 1, 2)), True]],
            'plan': None, 'enumerate': True, 'sample_seed': H(s, 'faults')}


def run_params(params):
    return execute(build(params))


def replay(scn):
    return execute(scn).violations


def minimise(v, max_runs=200):
    return minimise_scenario(v, replay, max_runs)


class TaggedEvents(list):
    """Event list that remembers which statement (or sub-line part of a block
    statement) appended each event."""

    def __init__(self, interp):
        super().__init__()
        self.interp = interp
        self.tags = []

    def append(self, ev):
        it = self.interp
        cur = it.cur_stmt
        self.tags.append(it.part if it.part is not None else
                         (cur.get('id') if cur is not None else None))
        super().append(ev)


class TracingInterp(Interp):
    """Reference interpreter that remembers which statement issued each device
    event."""

    def __init__(self, *a, **k):
        super().__init__(*a, **k)
        self.dev.events = TaggedEvents(self)

    @property
    def event_stmt(self):
        return self.dev.events.tags


def stmt_index(prog):
    out = {}
    for body in all_bodies(prog):
        for s in body:
            if 'id' in s:
                out[s['id']] = s
    return out


def structure_anomalies(mi):
    """Static scan (precondition, not a simulation result)."""
    n = 0
    starts = set(mi.instrs)
    recs = [s for s in mi.stmts if s[1] > s[0]]
    for s in recs:
        if s[0] not in starts or (s[1] not in starts and s[1] != mi.code_len):
            n += 1
    for i, a in enumerate(recs):
        for b in recs[i + 1:]:
            if a[0] < b[0] < a[1] < b[1] or b[0] < a[0] < b[1] < a[1]:
                n += 1
    return n


def _mk(scn, plan, cfg):
    s = {k: scn[k] for k in ('property', 'run_seed', 'source', 'text', 'ast', 'script', 'meta')}
    s['configs'] = [cfg]
    s['plan'] = plan
    s['enumerate'] = False
    s['sample_seed'] = scn.get('sample_seed', 0)
    return s


def debugger_trap_line(mi, scn, plan):
    """Run to the trap under the debugger and read the line `bt` reports for
    the innermost frame.  None when the session is unusable."""
    import re
    from qvm.dbg import Cmd
    sim = Sim(mi, scn['script'], plan, budget=CAP, fresh_module=True)
    box = {}
    sim.guarded(lambda: box.setdefault('dbg', Cmd(sim.machine, sim.module)))
    if sim.exc is not None or 'dbg' not in box:
        return None
    dbg = box['dbg']
    dbg.auto_status = 'off'
    sim.guarded(lambda: dbg.onecmd('continue'))
    if sim.exc is not None or not sim.cpu.halted:
        return None
    before = len(sim.stdout.getvalue())
    sim.guarded(lambda: dbg.onecmd('bt'))
    if sim.exc is not None:
        return None
    text = sim.stdout.getvalue()[before:]
    m = re.search(r'^\[1\].* line (\d+)\s*$', text, re.M)
    return int(m.group(1)) if m else None


def check_plan(scn, plan, res, cos, pos, text_of, by_id):
    ref = TracingInterp(scn['ast'], scn['script'], plan)
    try:
        ref.run()
    except Inconclusive as e:
        res.count('reference_inconclusive')
        return None
    # device events of the reference that correspond to one low-level call each
    ref_calls = []
    for ev, sid in zip(ref.dev.events, ref.event_stmt):
        if ev[0] in ('print', 'call', 'input'):
            ref_calls.append((ev[0], sid, ev[1] if ev[0] == 'call' else None))
    for cfg in scn['configs']:
        co = cos[tuple(cfg)]
        mi = ModInfo.get(co.bytes)
        sim = Sim(mi, scn['script'], plan, budget=CAP, record_io=True)
        pcs = {}
        starts = []

        di = sim.module.debug_info
        lookup_bad = []

        def post(s_, n):
            pc = s_.cpu.pc
            if not s_.cpu.halted and not lookup_bad and pc < mi.code_len:
                # the repository's own lookup, asked after every instruction
                # the way step / next ask it, must name the innermost record
                # (whatever it was asked before)
                got = di.find_stmt(pc, s_.cpu)
                mine = mi.innermost(pc)
                if got is not None and mine is not None and pc != 0 and \
                        (got.start_offset, got.end_offset) != (mine[0], mine[1]) and \
                        got.end_offset - got.start_offset > mine[1] - mine[0]:
                    lookup_bad.append({'pc': pc, 'tick': n,
                                       'lookup': [got.start_offset, got.end_offset, got.source_start_line],
                                       'innermost': [mine[0], mine[1], mine[2]]})
            if pc in mi.stmt_starts and not s_.cpu.halted:
                ln = mi.stmt_starts[pc][2]
                if not starts or starts[-1] != ln or True:
                    starts.append(ln)
        sim.post_hooks.append(post)
        mon = Monitor(sim, types=False, depth=False)
        out = sim.run()
        res.evals += 1
        res.ticks += out['ticks']
        if out['hang'] or out['exc']:
            res.count('run_unusable')
            continue
        if ref.resumed or any(e['armed'] for e in mon.events):
            res.count('runs_with_handled_error')
        res.count('lookups_after_every_instruction', out['ticks'])
        if lookup_bad:
            res.violation('C11:lookup', dict(lookup_bad[0], config=cfg, plan=plan,
                                             what='find_stmt names an enclosing record, not the innermost one'),
                          _mk(scn, plan, cfg), sig={'at': 'lookup'})
            return ref
        # (a) device calls: pair machine calls with reference events by kind
        mcalls = []
        for h, o, ioev in zip(sim.history, sim.impl.origins, [None] * len(sim.history)):
            if o is None:
                continue
            tick, dev, op = o
            kind = 'print' if (dev, op) == (2, 2) else \
                ('input' if h[0] == 'terminal_input' else
                 (None if (dev, op) == (2, 8) else 'call'))
            if kind is None:
                continue
            mcalls.append((kind, tick, h))
        io_pc = {e[0]: e[1] for e in sim.io_events}
        n = min(len(mcalls), len(ref_calls))
        for i in range(n):
            kind, tick, h = mcalls[i]
            rk, sid, rname = ref_calls[i]
            if kind != rk or (kind == 'call' and rname != h[0]):
                # the two histories differ (that is C01's business, not C11's)
                res.count('unaligned_event_streams')
                break
            pc = io_pc.get(tick)
            want = pos.get(sid)
            if pc is None or want is None:
                continue
            rec = mi.innermost(pc)
            res.count('device_calls_attributed')
            res.states.add((by_id[sid]['k'] if sid in by_id else None, cfg[0], 'io'))
            if rec is None or rec[2] != want[0]:
                res.violation('C11:line', {'event': h[:2], 'config': cfg, 'plan': plan,
                                           'expected_line': want[0],
                                           'map_line': rec[2] if rec else None,
                                           'statement': text_of.get(sid)},
                              _mk(scn, plan, cfg), sig={'at': 'device-call'})
                return ref
            extract = mi.source[rec[4]:rec[5]].strip().lower()
            mine = (text_of.get(sid) or '').strip().lower()
            if mine and not (extract == mine or extract in mine or mine in extract):
                res.violation('C11:extract', {'event': h[:2], 'config': cfg, 'plan': plan,
                                              'map_extract': extract[:120], 'statement': mine[:120]},
                              _mk(scn, plan, cfg), sig={'at': 'device-call'})
                return ref
        # (b) traps
        rout = ref.outcome
        if rout['trap'] not in (None, 'KEYBOARD_INTERRUPT') and rout['stmt'] is not None \
                and out['trap'] == rout['trap']:
            want = pos.get(rout['stmt'])
            if want is not None:
                res.count('traps_attributed')
                res.states.add((rout['trap'], cfg[0], 'trap'))
                if out['line'] != want[0]:
                    res.violation('C11:line', {'trap': out['trap'], 'config': cfg, 'plan': plan,
                                               'expected_line': want[0], 'map_line': out['line']},
                                  _mk(scn, plan, cfg), sig={'at': 'trap'})
                    return ref
                # ... and so does the debugger when the same run is driven
                # through it: the innermost frame of `bt` shows that line
                shown = debugger_trap_line(mi, scn, plan)
                if shown is not None:
                    res.count('debugger_trap_reports_checked')
                    if shown != want[0]:
                        res.violation('C11:line', {'trap': out['trap'], 'config': cfg, 'plan': plan,
                                                   'expected_line': want[0], 'debugger_bt_line': shown},
                                      _mk(scn, plan, cfg), sig={'at': 'debugger-bt'})
                        return ref
        # (c) executed simple statements appear in order among the statement starts
        if not ref.resumed and rout['trap'] is None:
            coded = {v[2] for v in mi.stmt_starts.values()}
            per_line = {}
            for i_, p_ in pos.items():
                # (every recorded position counts, also the ELSEIF / CASE /
                # LOOP part of a block statement: a statement written on an
                # ELSEIF line shares that line with the ELSEIF itself)
                per_line[p_[0]] = per_line.get(p_[0], 0) + 1
            # (a statement the optimiser left without code has no start; on a
            # line shared by several statements one cannot tell which of them
            # kept its code, so only statements on a line of their own count)
            want_lines = [pos[i][0] for i in ref.stmt_trace
                          if i in by_id and by_id[i]['k'] in SIMPLE and i in pos
                          and pos[i][0] in coded and per_line.get(pos[i][0]) == 1]
            j = 0
            for ln in starts:
                if j < len(want_lines) and ln == want_lines[j]:
                    j += 1
                    while j < len(want_lines) and want_lines[j] == ln:
                        j += 1      # several statements on one line
            if j < len(want_lines):
                res.violation('C11:line', {'what': 'an executed statement never appears as a statement start',
                                           'config': cfg, 'plan': plan, 'missing_line': want_lines[j],
                                           'index': j, 'of': len(want_lines)},
                              _mk(scn, plan, cfg), sig={'at': 'statement-start'})
                return ref
            res.count('statement_sequences_checked')
        res.nontrivial.add(digest([scn['text'], cfg, plan]))
    return ref


def execute(scn):
    res = Result()
    cos = {}
    for cfg in scn['configs']:
        co = compile_source(scn['text'], cfg[0], True)
        res.evals += 1
        if not co.ok:
            res.count('not_accepted_' + co.status)
            return res
        cos[tuple(cfg)] = co
        res.count('structure_anomalies_static', structure_anomalies(ModInfo.get(co.bytes)))
    _, pr = to_text(scn['ast'], final_newline=scn['text'].endswith('\n'))
    pos, text_of = pr.pos, pr.text_of
    by_id = stmt_index(scn['ast'])
    plans = [scn['plan'] or []] if not scn.get('enumerate') else [[]]
    r = stream(scn.get('sample_seed', 0), 'faults')
    first = True
    while plans:
        plan = plans.pop(0)
        ref = check_plan(scn, plan, res, cos, pos, text_of, by_id)
        if res.violations:
            break
        if first and ref is not None and scn.get('enumerate'):
            if res.sample is None:
                res.sample = {'source': scn['source'], 'configs': scn['configs'],
                              'text_head': scn['text'][:400]}
            ops = [(op, n) for op, cnt in sorted(ref.dev.op_count.items())
                   for n in range(1, cnt + 1) if op != 'data.read']
            for op, n in (r.sample(ops, 8) if len(ops) > 8 else ops):
                plans.append([{'kind': 'F1op', 'op': op, 'nth': n}])
        first = False
    return res
