"""simqb's own program representation (never qbee's parser or AST).

Everything is plain JSON-able lists / dicts so that a program can be written
into a replay file, deleted from statement-wise by the minimiser, printed to
QBASIC text and interpreted by the reference interpreter.

Types:  '%' INTEGER  '&' LONG  '!' SINGLE  '#' DOUBLE  '$' STRING  'T:<name>' record

Expressions (lists):
  ['lit', ty, value]
  ['var', name]                     scalar (name carries its suffix) or whole record
  ['idx', name, [e...]]             array element
  ['fld', base, [field...]]         record field, base is ['var',..] or ['idx',..]
  ['bin', op, a, b]                 + - * / \\ mod = <> < > <= >= and or xor eqv imp
  ['un', op, a]                     neg not
  ['par', e]                        explicit parentheses
  ['fn', name, [e...]]              builtin function
  ['call', name, [e...]]            user FUNCTION
  ['dev', name, [e...]]             rnd timer inkey$ peek err
  ['arr', name]                     whole-array argument  name()
  ['raw', text, ty]                 opaque expression text (family b only)

Statements (dicts, key 'k'):
  let(lv,e) print(items=[[e|None, sep]], ) input(prompt,psep,lvs) read(lvs)
  data(items=[text]) restore(label|None) if(arms=[[cond,body]],els) ifl(cond,then,els)
  for(var,a,b,step,body,nextvar) while(cond,body) do(pre,post,body)  pre/post=[kind,cond]|None
  exit(what) select(e,cases=[[tests,body]],els) goto(label) gosub(label) return
  label(name) call(name,args,style) onerr(mode,label) resume(next) end
  beep sound(f,d) poke(a,v) defseg(e|None) cls randomize(e)
  dim(shared,name,bounds|None,ty) static(name,ty,bounds) const(name,e)
  multi(stmts)  raw(text)
Program: {'types':[{'name','fields':[[f,ty]]}], 'main':[stmts],
          'procs':[{'kind','name','params':[[name,ty,isarray]],'static','body','ret'}]}
"""

NUM = '%&!#'
RANK = {'%': 0, '&': 1, '!': 2, '#': 3}
TYNAME = {'%': 'integer', '&': 'long', '!': 'single', '#': 'double',
          '$': 'string'}
CELLNAME = {'%': 'INTEGER', '&': 'LONG', '!': 'SINGLE', '#': 'DOUBLE',
            '$': 'STRING'}

CMP = ('=', '<>', '<', '>', '<=', '>=')
LOGIC = ('and', 'or', 'xor', 'eqv', 'imp')
ARITH = ('+', '-', '*')

# result types of builtin functions (the language's static typing table)
FN_TYPE = {
    'asc': '%', 'chr$': '$', 'cint': '%', 'clng': '&', 'instr': '&',
    'int': '&', 'lbound': '&', 'lcase$': '$', 'left$': '$', 'len': '&',
    'ltrim$': '$', 'mid$': '$', 'right$': '$', 'rtrim$': '$', 'space$': '$',
    'str$': '$', 'string$': '$', 'ubound': '&', 'ucase$': '$', 'val': '#',
}
DEV_TYPE = {'rnd': '!', 'timer': '!', 'inkey$': '$', 'peek': '%', 'err': '%'}


def is_num(t):
    return t in NUM


def name_type(name):
    """Type of a suffixed name."""
    return name[-1] if name[-1] in '%&!#$' else None


class TypeEnv:
    """Static information the printer / interpreter / generator share:
    record types, array element types, record variables, function types."""

    def __init__(self, prog):
        self.types = {t['name']: t['fields'] for t in prog.get('types', [])}
        self.funcs = {}
        self.procs = {}
        for p in prog.get('procs', []):
            self.procs[p['name']] = p
            if p['kind'] == 'function':
                self.funcs[p['name']] = name_type(p['name'])

    def field_type(self, rectype, path):
        t = rectype
        for f in path:
            assert t.startswith('T:'), (rectype, path)
            for fn, ft in self.types[t[2:]]:
                if fn == f:
                    t = ft
                    break
            else:
                raise KeyError((rectype, path))
        return t

    def leaves(self, rectype):
        """All (path, builtin type) leaves of a record type."""
        out = []
        for fn, ft in self.types[rectype[2:]]:
            if ft.startswith('T:'):
                for p, t in self.leaves(ft):
                    out.append(([fn] + p, t))
            else:
                out.append(([fn], ft))
        return out


def expr_type(e, scope):
    """Static type of an expression.  `scope` must offer var_type(name),
    array_type(name), env (TypeEnv)."""
    k = e[0]
    if k == 'lit':
        return e[1]
    if k == 'var':
        return scope.var_type(e[1])
    if k == 'idx':
        return scope.array_type(e[1])
    if k == 'fld':
        return scope.env.field_type(expr_type(e[1], scope), e[2])
    if k == 'par':
        return expr_type(e[1], scope)
    if k == 'un':
        t = expr_type(e[2], scope)
        if e[1] == 'not':
            return '%' if t == '%' else '&'
        return t
    if k == 'bin':
        op = e[1]
        a = expr_type(e[2], scope)
        b = expr_type(e[3], scope)
        if op in CMP:
            return '%'
        if a == '$':
            return '$'
        if op in LOGIC or op in ('mod', '\\'):
            return '%' if (a == '%' and b == '%') else '&'
        w = a if RANK[a] >= RANK[b] else b
        if op == '/':
            return '#' if w == '#' else '!'
        return w
    if k == 'fn':
        if e[1] == 'abs':
            return expr_type(e[2][0], scope)
        return FN_TYPE[e[1]]
    if k == 'dev':
        return DEV_TYPE[e[1]]
    if k == 'call':
        return name_type(e[1])
    if k == 'raw':
        return e[2]
    raise ValueError(e)


# ---------------------------------------------------------------------------
# printer

PREC = {
    'imp': 1, 'eqv': 2, 'xor': 3, 'or': 4, 'and': 5, 'not': 6,
    '=': 7, '<>': 7, '<': 7, '>': 7, '<=': 7, '>=': 7,
    '+': 8, '-': 8, 'mod': 9, '\\': 10, '*': 11, '/': 11, 'neg': 12,
}


def fmt_lit(ty, v):
    if ty == '$':
        assert '"' not in v
        return '"' + v + '"'
    if ty == '%':
        return str(v)
    if ty == '&':
        return f'{v}&'
    if ty in '!#':
        s = repr(float(v))
        if 'inf' in s or 'nan' in s:
            raise ValueError('unprintable float literal %r' % (v,))
        if 'e' in s:
            # exponent form: D marks a DOUBLE, E a SINGLE (no suffix)
            m, x = s.split('e')
            if m.endswith('.0'):
                m = m[:-2]
            return m + ('D' if ty == '#' else 'E') + x
        if s.endswith('.0'):
            s = s[:-2]
        return s + ty
    raise ValueError(ty)


def pe(e, parent=0):
    """Print an expression; parenthesise by precedence (negative literals and
    unary operators are always parenthesised when nested - qbee's grammar is
    exercised with simple, unambiguous text)."""
    k = e[0]
    if k == 'lit':
        s = fmt_lit(e[1], e[2])
        if s.startswith('-') and parent > 0:
            return '(' + s + ')'
        return s
    if k == 'var':
        return e[1]
    if k == 'arr':
        return e[1] + '()'
    if k == 'idx':
        return e[1] + '(' + ', '.join(pe(i) for i in e[2]) + ')'
    if k == 'fld':
        return pe(e[1]) + '.' + '.'.join(e[2])
    if k == 'par':
        return '(' + pe(e[1]) + ')'
    if k == 'raw':
        return e[1]
    if k == 'un':
        op = e[1]
        p = PREC['neg' if op in ('neg', 'pos') else 'not']
        s = {'neg': '-', 'pos': '+', 'not': 'not '}[op] + pe(e[2], p + 1)
        if parent > 0:
            return '(' + s + ')'
        return s
    if k == 'bin':
        op = e[1]
        p = PREC[op]
        s = pe(e[2], p) + ' ' + op + ' ' + pe(e[3], p + 1)
        if p < parent:
            return '(' + s + ')'
        return s
    if k in ('fn', 'call'):
        if not e[2]:
            return e[1]
        return e[1] + '(' + ', '.join(pe(a) for a in e[2]) + ')'
    if k == 'dev':
        if not e[2]:
            return e[1]
        return e[1] + '(' + ', '.join(pe(a) for a in e[2]) + ')'
    raise ValueError(e)


def paren_depth(e):
    s = pe(e)
    d = m = 0
    for c in s:
        if c == '(':
            d += 1
            m = max(m, d)
        elif c == ')':
            d -= 1
    return m


def type_decl(ty):
    if ty.startswith('T:'):
        return ty[2:]
    return TYNAME[ty]


def _bounds(bs):
    out = []
    for lb, ub in bs:
        if lb is None:
            out.append(pe(ub))
        else:
            out.append(pe(lb) + ' to ' + pe(ub))
    return ', '.join(out)


class Printer:
    """AST -> QBASIC text.  Records for every statement id the (line, col)
    where it starts and the text it was printed as."""

    def __init__(self, prog, final_newline=True, indent=2):
        self.prog = prog
        self.lines = []
        self.pos = {}       # stmt id -> (line, col)
        self.text_of = {}   # stmt id -> text of its first line
        self.final_newline = final_newline
        self.ind = indent

    def emit(self, depth, text, sid=None):
        pad = ('\t' * depth) if self.prog.get('tabs') else ' ' * (self.ind * depth)
        self.lines.append(pad + text)
        if sid is not None:
            self.pos[sid] = (len(self.lines), len(pad) + 1)
            self.text_of[sid] = text

    def simple(self, s):
        """Text of a simple (one-line) statement, or None if it is a block."""
        k = s['k']
        if k == 'let':
            return pe(s['lv']) + ' = ' + pe(s['e'])
        if k == 'print':
            out = 'print'
            items = s['items']
            parts = []
            for e, sep in items:
                t = pe(e) if e is not None else ''
                parts.append(t + (sep or ''))
            body = ' '.join(p for p in parts if p)
            return out + (' ' + body if body else '')
        if k == 'input':
            out = 'input '
            if s.get('semi'):
                out += '; '
            if s.get('prompt') is not None:
                out += '"' + s['prompt'] + '"' + s['psep'] + ' '
            return out + ', '.join(pe(v) for v in s['lvs'])
        if k == 'read':
            return 'read ' + ', '.join(pe(v) for v in s['lvs'])
        if k == 'data':
            return 'data ' + ', '.join(s['items'])
        if k == 'restore':
            return 'restore' + (' ' + s['label'] if s.get('label') else '')
        if k == 'exit':
            return 'exit ' + s['what']
        if k == 'goto':
            return 'goto ' + s['label']
        if k == 'gosub':
            return 'gosub ' + s['label']
        if k == 'return':
            return 'return' + (' ' + s['label'] if s.get('label') else '')
        if k == 'call':
            args = ', '.join(pe(a) for a in s['args'])
            if s.get('style') == 'call':
                return 'call ' + s['name'] + ('(' + args + ')' if args else '')
            return s['name'] + (' ' + args if args else '')
        if k == 'onerr':
            if s['mode'] == 'goto':
                return 'on error goto ' + s['label']
            if s['mode'] == 'off':
                return 'on error goto 0'
            return 'on error resume next'
        if k == 'resume':
            return 'resume next' if s.get('next') else 'resume'
        if k == 'end':
            return 'end'
        if k == 'beep':
            return 'beep'
        if k == 'cls':
            return 'cls'
        if k == 'sound':
            return 'sound ' + pe(s['f']) + ', ' + pe(s['d'])
        if k == 'poke':
            return 'poke ' + pe(s['a']) + ', ' + pe(s['v'])
        if k == 'defseg':
            return 'def seg' + (' = ' + pe(s['e']) if s.get('e') is not None else '')
        if k == 'randomize':
            return 'randomize ' + pe(s['e'])
        if k == 'dim':
            out = 'dim ' + ('shared ' if s.get('shared') else '') + s['name']
            if s.get('bounds') is not None:
                out += '(' + _bounds(s['bounds']) + ')'
            if s.get('as'):
                out += ' as ' + type_decl(s['ty'])
            return out
        if k == 'static':
            out = 'static ' + s['name']
            if s.get('as'):
                out += ' as ' + type_decl(s['ty'])
            return out
        if k == 'const':
            return 'const ' + s['name'] + ' = ' + pe(s['e'])
        if k == 'raw':
            return s['text']
        if k == 'ifl':
            t = ' : '.join(self.simple(x) for x in s['then'])
            out = 'if ' + pe(s['cond']) + ' then ' + t
            if s.get('els'):
                out += ' else ' + ' : '.join(self.simple(x) for x in s['els'])
            return out
        return None

    def stmts(self, body, depth):
        for s in body:
            self.stmt(s, depth)

    def stmt(self, s, depth):
        k = s['k']
        sid = s.get('id')
        if k == 'label':
            self.emit(0, s['name'] + ':', sid)
            return
        if k == 'multi':
            # several simple statements on one line; record each position
            pad = ('\t' * depth) if self.prog.get('tabs') else ' ' * (self.ind * depth)
            col = len(pad) + 1
            parts = []
            for x in s['stmts']:
                t = self.simple(x)
                self.pos[x.get('id')] = (len(self.lines) + 1, col)
                self.text_of[x.get('id')] = t
                parts.append(t)
                col += len(t) + 3
            self.lines.append(pad + ' : '.join(parts))
            return
        t = self.simple(s)
        if t is not None:
            if k == 'ifl':
                # positions of nested simple statements on the same line
                pad = ('\t' * depth) if self.prog.get('tabs') else ' ' * (self.ind * depth)
                head = 'if ' + pe(s['cond']) + ' then '
                col = len(pad) + 1 + len(head)
                for x in s['then']:
                    tx = self.simple(x)
                    self.pos[x.get('id')] = (len(self.lines) + 1, col)
                    self.text_of[x.get('id')] = tx
                    col += len(tx) + 3
                if s.get('els'):
                    col += len('else ') - 2
                    for x in s['els']:
                        tx = self.simple(x)
                        self.pos[x.get('id')] = (len(self.lines) + 1, col)
                        self.text_of[x.get('id')] = tx
                        col += len(tx) + 3
            self.emit(depth, t, sid)
            return
        if k == 'if':
            first = True
            for i, (cond, body) in enumerate(s['arms']):
                head = ('if ' if first else 'elseif ') + pe(cond) + ' then'
                inl = None
                if not first and i in (s.get('inline_arms') or ()) and body \
                        and body[0]['k'] not in ('label', 'multi', 'ifl', 'data'):
                    inl = self.simple(body[0])
                if inl is not None:
                    # ELSEIF c THEN stmt  - the first statement of the branch on
                    # the ELSEIF line itself
                    self.emit(depth, head + ' ' + inl, f'{sid}.arm{i}')
                    ln, col = self.pos[f'{sid}.arm{i}']
                    self.pos[body[0].get('id')] = (ln, col + len(head) + 1)
                    self.text_of[body[0].get('id')] = inl
                    body = body[1:]
                else:
                    self.emit(depth, head, sid if first else f'{sid}.arm{i}')
                first = False
                self.stmts(body, depth + 1)
            if s.get('els') is not None:
                self.emit(depth, 'else')
                self.stmts(s['els'], depth + 1)
            self.emit(depth, 'end if')
            return
        if k == 'for':
            h = 'for ' + s['var'] + ' = ' + pe(s['a']) + ' to ' + pe(s['b'])
            if s.get('step') is not None:
                h += ' step ' + pe(s['step'])
            self.emit(depth, h, sid)
            self.stmts(s['body'], depth + 1)
            self.emit(depth, 'next' + (' ' + s['var'] if s.get('nextvar') else ''), f'{sid}.next')
            return
        if k == 'while':
            self.emit(depth, 'while ' + pe(s['cond']), sid)
            self.stmts(s['body'], depth + 1)
            self.emit(depth, 'wend')
            return
        if k == 'do':
            h = 'do'
            if s.get('pre'):
                h += ' ' + s['pre'][0] + ' ' + pe(s['pre'][1])
            self.emit(depth, h, sid)
            self.stmts(s['body'], depth + 1)
            t = 'loop'
            if s.get('post'):
                t += ' ' + s['post'][0] + ' ' + pe(s['post'][1])
            self.emit(depth, t, f'{sid}.loop')
            return
        if k == 'select':
            self.emit(depth, 'select case ' + pe(s['e']), sid)
            for ci, (tests, body) in enumerate(s['cases']):
                ts = []
                for t in tests:
                    if t[0] == 'eq':
                        ts.append(pe(t[1]))
                    elif t[0] == 'range':
                        ts.append(pe(t[1]) + ' to ' + pe(t[2]))
                    else:
                        ts.append('is ' + t[1] + ' ' + pe(t[2]))
                self.emit(depth, 'case ' + ', '.join(ts), f'{sid}.case{ci}')
                self.stmts(body, depth + 1)
            if s.get('els') is not None:
                self.emit(depth, 'case else')
                self.stmts(s['els'], depth + 1)
            self.emit(depth, 'end select')
            return
        raise ValueError(s)

    def run(self):
        prog = self.prog
        for p in prog.get('procs', []):
            self.emit(0, 'declare ' + self.proc_head(p))
        for t in prog.get('types', []):
            self.emit(0, 'type ' + t['name'])
            for fn, ft in t['fields']:
                self.emit(1, fn + ' as ' + type_decl(ft))
            self.emit(0, 'end type')
        # procedures normally follow the module-level code; with 'procs_at'
        # they are written between two module-level statements
        at = prog.get('procs_at')
        if at is None or not prog.get('procs'):
            at = len(prog['main'])
        self.stmts(prog['main'][:at], 0)
        for p in prog.get('procs', []):
            self.emit(0, self.proc_head(p) + (' static' if p.get('static') else ''),
                      p.get('id'))
            self.stmts(p['body'], 1)
            self.emit(0, 'end ' + p['kind'])
        self.stmts(prog['main'][at:], 0)
        if prog.get('join'):
            self.join_lines(prog['join'])
        text = '\n'.join(self.lines)
        if self.final_newline:
            text += '\n'
        return text

    NOJOIN = ('declare ', 'type ', 'end type', 'sub ', 'function ', 'end sub', 'end function',
              'data ', 'def')

    def join_lines(self, spec):
        """Write some consecutive lines as one line, `a : b` (QBASIC's statement
        separator also joins block headers and terminators: `for i = 1 to 3 :
        print i : next`).  Decisions come from the seed stored in the program,
        so the text stays a pure function of the AST."""
        import random
        rj = random.Random(spec.get('seed', 0))
        prob = spec.get('p', 0.2)
        in_type = False
        new = []
        remap = {}       # old line number -> (new line number, column shift)
        for i, ln in enumerate(self.lines, 1):
            t = ln.strip().lower()
            plain = not (in_type or t.endswith(':') or t.startswith(self.NOJOIN) or not t)
            if t.startswith('type '):
                in_type = True
            if t == 'end type':
                in_type = False
            ok = plain and new and self._joinable_prev and rj.random() < prob \
                and len(new[-1]) + len(t) < 180
            if ok:
                indent = len(ln) - len(ln.lstrip())
                shift = len(new[-1]) + 3 - indent
                new[-1] = new[-1] + ' : ' + ln.lstrip()
                remap[i] = (len(new), shift)
            else:
                new.append(ln)
                remap[i] = (len(new), 0)
            # nothing may follow a single-line IF on its line (it would become
            # part of the THEN / ELSE branch)
            single_if = t.startswith(('if ', 'elseif ')) and not t.endswith(' then')
            self._joinable_prev = plain and not single_if and not (ok and self._prev_single_if)
            if ok:
                self._prev_single_if = self._prev_single_if or single_if
            else:
                self._prev_single_if = single_if
            if self._prev_single_if:
                self._joinable_prev = False
        self.lines = new
        self.pos = {k: (remap[ln][0], col + remap[ln][1]) for k, (ln, col) in self.pos.items()}

    _joinable_prev = False
    _prev_single_if = False

    def proc_head(self, p):
        ps = []
        for name, ty, isarr in p['params']:
            if ty.startswith('T:'):
                ps.append(name + ('()' if isarr else '') + ' as ' + ty[2:])
            elif name_type(name) is None:
                # an unsuffixed parameter (one that shadows a SHARED variable)
                ps.append(name + ('()' if isarr else '') + ' as ' + TYNAME[ty])
            else:
                ps.append(name + ('()' if isarr else ''))
        if not ps:
            return p['kind'] + ' ' + p['name']
        return p['kind'] + ' ' + p['name'] + ' (' + ', '.join(ps) + ')'


DEFKW = {'%': 'defint', '&': 'deflng', '!': 'defsng', '#': 'defdbl', '$': 'defstr'}
_NAME = None


def strip_names(text, prog):
    """Spell generated identifiers the way a DEFtype program would: a name whose
    suffix equals the DEFtype of its first letter (or '!' when no DEFtype covers
    the letter) is written without the suffix.  Only identifiers of the
    generator's own shape (letters + digits + suffix) outside string literals
    are touched, and one program always uses one spelling per name."""
    dt = prog.get('deftypes')
    if not dt and not prog.get('strip_single'):
        return text
    import re
    global _NAME
    if _NAME is None:
        _NAME = re.compile(r'\b(v|z|t|p|s|n)(\d+)([%&!#$])(?!\()')
    dt = dt or {}

    def sub(m):
        stem, num, suf = m.groups()
        want = dt.get(stem[0])
        if want == suf or (want is None and suf == '!' and prog.get('strip_single')):
            return stem + num
        return m.group(0)
    parts = text.split('"')
    for i in range(0, len(parts), 2):
        parts[i] = _NAME.sub(sub, parts[i])
    return '"'.join(parts)


def to_text(prog, final_newline=True):
    pr = Printer(prog, final_newline=final_newline)
    text = pr.run()
    dt = prog.get('deftypes')
    if dt or prog.get('strip_single'):
        text = strip_names(text, prog)
        pr.text_of = {k: strip_names(v, prog) for k, v in pr.text_of.items()}
        if dt:
            # consecutive letters of one type are written as a range
            head = []
            letters = sorted(dt)
            i = 0
            while i < len(letters):
                j = i
                while j + 1 < len(letters) and ord(letters[j + 1]) == ord(letters[j]) + 1 \
                        and dt[letters[j + 1]] == dt[letters[i]]:
                    j += 1
                rng = letters[i] if i == j else letters[i] + '-' + letters[j]
                head.append(DEFKW[dt[letters[i]]] + ' ' + rng)
                i = j + 1
            text = '\n'.join(head) + '\n' + text
            pr.pos = {k: (ln + len(head), col) for k, (ln, col) in pr.pos.items()}
    return text, pr


def number_stmts(prog):
    """Give every statement a unique id (stable pre-order)."""
    n = [0]

    def walk(body):
        for s in body:
            n[0] += 1
            s['id'] = n[0]
            for sub in sub_bodies(s):
                walk(sub)
    walk(prog['main'])
    for p in prog.get('procs', []):
        n[0] += 1
        p['id'] = n[0]
        walk(p['body'])
    return n[0]


def sub_bodies(s):
    k = s['k']
    if k == 'if':
        out = [b for _, b in s['arms']]
        if s.get('els') is not None:
            out.append(s['els'])
        return out
    if k == 'ifl':
        return [s['then']] + ([s['els']] if s.get('els') else [])
    if k in ('for', 'while', 'do'):
        return [s['body']]
    if k == 'select':
        out = [b for _, b in s['cases']]
        if s.get('els') is not None:
            out.append(s['els'])
        return out
    if k == 'multi':
        return [s['stmts']]
    return []


def all_bodies(prog):
    """Every statement list of the program (for the minimiser)."""
    out = []

    def walk(body):
        out.append(body)
        for s in body:
            for sub in sub_bodies(s):
                walk(sub)
    walk(prog['main'])
    for p in prog.get('procs', []):
        walk(p['body'])
    return out


def count_stmts(prog):
    return sum(len(b) for b in all_bodies(prog))
