"""Declared type of every storage cell, derived by simqb from the routine
symbol tables recorded in the debug section (own expansion of Types; the
repository's memlayout module is not used)."""
from .core import qb

REF = 'REFERENCE'
RESERVED = '<reserved>'


class TypeMap:
    def __init__(self, mi):
        di = mi.module.debug_info
        self.mi = mi
        self.user_types = di.user_types
        self.routines = []       # (start, end, name, cells)
        self.globals = self.expand_vars(list(di.global_vars.items()))
        for name, rec in di.routines.items():
            r = rec.node.routine
            cells = [REF for _ in r.params]   # one reference per parameter
            cells += self.expand_vars(list(r.local_vars.items()))
            self.routines.append((rec.start_offset, rec.end_offset, name, cells,
                                  len(r.params)))
        m = di.main_routine
        self.main_cells = self.expand_vars(list(m.local_vars.items()))
        self.array_elem = {}     # id(Array segment) -> (segment, elem cells)
        self._frame_cache = {}

    # -- expansion --------------------------------------------------------------

    def expand(self, t):
        if t.is_array:
            if not t.is_static_array:
                # dynamic array / array parameter: one reference; remember
                # what its elements look like for the sweep
                self._last_dyn = self.expand(t.array_base_type)
                return [('DYN', tuple(self._last_dyn))]
            elem = self.expand(t.array_base_type)
            n = 1
            for d in t.array_dims:
                n *= (d.static_ubound - d.static_lbound + 1)
            return [RESERVED, 'LONG', 'LONG'] + ['LONG', 'LONG'] * len(t.array_dims) + elem * n
        if t.is_builtin:
            return [t.name.upper()]
        out = []
        for fname, ftype in self.user_types[t.name].fields.items():
            out += self.expand(ftype)
        return out

    def expand_vars(self, items):
        out = []
        for name, t in items:
            out += self.expand(t)
        return out

    def cells_for_frame(self, frame):
        k = frame.code_start
        c = self._frame_cache.get(k)
        if c is None:
            c = self.main_cells
            for start, end, name, cells, np in self.routines:
                if start <= k < end:
                    c = cells
                    break
            self._frame_cache[k] = c
        return c

    # -- checks -----------------------------------------------------------------

    def _check_cell(self, seg_kind, cells, idx, cell):
        if cell is None:
            return None
        if idx >= len(cells):
            # temporaries appended by by-value arguments live past the frame
            return None
        want = cells[idx]
        got = cell.type.name
        if isinstance(want, tuple):
            if got != REF:
                return {'where': seg_kind, 'idx': idx, 'expected': REF, 'got': got}
            return self._check_dynamic(cell.value, want[1], seg_kind, idx)
        if want == RESERVED:
            return {'where': seg_kind, 'idx': idx, 'expected': 'nothing', 'got': got}
        if want != got:
            return {'where': seg_kind, 'idx': idx, 'expected': want, 'got': got}
        return None

    def _check_dynamic(self, ref, elem, seg_kind, idx):
        """Element cells of a dynamically allocated array."""
        seg = ref.segment
        if type(seg).__name__ != 'Array' or ref.index != 0:
            return None          # a reference into a static array (array parameter)
        cells = seg.cells
        nd = cells[1].value if cells[1] is not None else 0
        base = 3 + 2 * nd
        n = len(elem)
        for i in range(base, len(cells)):
            c = cells[i]
            if c is None:
                continue
            want = elem[(i - base) % n]
            if c.type.name != want:
                return {'where': seg_kind + '->dynamic array', 'idx': idx, 'element_cell': i - base,
                        'expected': want, 'got': c.type.name}
        return None

    def check_store(self, cpu, ins, pc):
        op, ops = ins[0], ins[1]
        if op == 'storel':
            fr = cpu.cur_frame
            if fr is None:
                return None
            return self._check_cell('frame', self.cells_for_frame(fr), ops[0],
                                    fr.cells[ops[0]] if ops[0] < len(fr.cells) else None)
        if op == 'storeidxl':
            fr = cpu.cur_frame
            if fr is None:
                return None
            i = ops[0] + ops[1]
            return self._check_cell('frame', self.cells_for_frame(fr), i,
                                    fr.cells[i] if i < len(fr.cells) else None)
        if op == 'storeg':
            g = cpu.globals_segment
            return self._check_cell('globals', self.globals, ops[0],
                                    g.cells[ops[0]] if ops[0] < len(g.cells) else None)
        if op == 'storeidxg':
            g = cpu.globals_segment
            i = ops[0] + ops[1]
            return self._check_cell('globals', self.globals, i,
                                    g.cells[i] if i < len(g.cells) else None)
        return None

    def check_ref_store(self, cpu, seg, idx):
        """A store through a reference (array element, record field of an
        element, by-reference parameter)."""
        if seg is cpu.globals_segment:
            cells, kind = self.globals, 'globals'
        elif type(seg).__name__ == 'CallFrame':
            cells, kind = self.cells_for_frame(seg), 'frame (by reference)'
        else:
            return None
        if idx >= len(seg.cells):
            return None
        return self._check_cell(kind, cells, idx, seg.cells[idx])

    def sweep(self, cpu):
        bad = []
        g = cpu.globals_segment
        for i, c in enumerate(g.cells):
            b = self._check_cell('globals', self.globals, i, c)
            if b:
                bad.append(b)
        fr = cpu.cur_frame
        d = 0
        while fr is not None:
            cells = self.cells_for_frame(fr)
            for i, c in enumerate(fr.cells[:fr.original_size]):
                b = self._check_cell('frame', cells, i, c)
                if b:
                    b['frame_depth'] = d
                    bad.append(b)
            fr = fr.prev_frame
            d += 1
        return bad
