"""Runs one C20 job in a fresh interpreter whose environment the simulator
chose: hash seed and cwd (set by the parent), wall clock (patched here before
qbee is imported), and a history of earlier compilations / runs / debugger
sessions in this very process, incl. compilations that fail and compilations
aborted by an exception raised at the n-th line event inside qbee.*.

stdin: JSON job; stdout: JSON result (digests only)."""
import sys
import os
if sys.path and sys.path[0].endswith("simqb"):
    sys.path.pop(0)      # never let simqb/*.py shadow the standard library
import io
import json
import hashlib
import contextlib


def sha(b):
    if isinstance(b, str):
        b = b.encode('utf-8', 'replace')
    return hashlib.sha256(b).hexdigest()[:20]


class Abort(BaseException):
    pass


def main():
    job = json.load(sys.stdin)
    env = job.get('env', {})
    if env.get('epoch') is not None:
        import time
        import datetime as _dt
        epoch = float(env['epoch'])
        time.time = lambda: epoch
        time.time_ns = lambda: int(epoch * 1e9)
        time.monotonic = lambda: epoch
        time.perf_counter = lambda: epoch

        class FakeDT(_dt.datetime):
            @classmethod
            def now(cls, tz=None):
                return cls.fromtimestamp(epoch, tz)

            @classmethod
            def utcnow(cls):
                return cls.utcfromtimestamp(epoch)
        _dt.datetime = FakeDT
    sys.path.insert(0, os.environ.get('SIMQB_REPO', '/repo'))
    sys.path.insert(1, job['verif'])
    from simqb.core import compile_source, split_sections
    from simqb.world import ModInfo, Sim

    def compile_(t, abort_at=None):
        if abort_at is None:
            return compile_source(t['text'], t['opt'], t['dbg'], listing=True, cache=False)
        n = [0]

        def tracer(frame, event, arg):
            if '/qbee/' not in frame.f_code.co_filename:
                return None

            def local(frame, event, arg):
                if event == 'line':
                    n[0] += 1
                    if n[0] == abort_at:
                        raise Abort()
                return local
            return local
        # module import is not part of a compilation: finish it first
        from qbee.compiler import Compiler
        from qbee import qvm_codegen  # noqa
        sys.settrace(tracer)
        try:
            c = Compiler(codegen_name='qvm', optimization_level=t['opt'], debug_info=t['dbg'])
            code = c.compile(t['text'])
            bytes(code)
            return 'completed'
        except Abort:
            return 'aborted'
        except Exception as e:
            return 'failed:' + type(e).__name__
        finally:
            sys.settrace(None)

    log = []
    sink = io.StringIO()
    with contextlib.redirect_stdout(sink):
        for h in job.get('history', []):
            k = h['kind']
            if k == 'compile':
                co = compile_(h)
                log.append(co.status)
            elif k == 'abort':
                log.append(compile_(h, abort_at=h['at']))
            elif k == 'run':
                co = compile_(h)
                if co.ok:
                    sim = Sim(ModInfo.get(co.bytes), h.get('script'), budget=20000)
                    sim.run()
                    log.append('ran')
            elif k == 'debug':
                co = compile_source(h['text'], h['opt'], True, cache=False)
                if co.ok:
                    from qvm.dbg import Cmd
                    mi = ModInfo(co.bytes)
                    sim = Sim(mi, h.get('script'), budget=20000, fresh_module=True)
                    try:
                        dbg = Cmd(sim.machine, sim.module)
                        dbg.auto_status = 'off'
                        for c in h.get('cmds', []):
                            sim.guarded(lambda: dbg.onecmd(c))
                    except BaseException:
                        pass
                    log.append('debugged')
        t = job['target']
        co = compile_(t)
    out = {'history_log': log, 'status': co.status,
           'key': list(co.key())}
    if co.ok:
        secs = split_sections(co.bytes)
        out['sections'] = {str(i): sha(secs.get(i, b'')) for i in (1, 2, 3, 4)}
        out['listing'] = sha(co.listing)
        runs = []
        import time as _time

        class fake_clock:
            """Run 1 sees a host clock that jumps 50 ms at every reading (run 0
            the real one): execution must not depend on how fast the host is."""
            names = ('monotonic', 'time', 'perf_counter')

            def __enter__(self):
                self.saved = {n: getattr(_time, n) for n in self.names}
                t = [float(env.get('epoch') or 1000.0)]

                def tick():
                    t[0] += 0.05
                    return t[0]
                for n in self.names:
                    setattr(_time, n, tick)

            def __exit__(self, *a):
                for n, f in self.saved.items():
                    setattr(_time, n, f)

        for rep in range(4):
            with contextlib.redirect_stdout(sink), \
                    (fake_clock() if rep == 1 else contextlib.nullcontext()):
                # runs 0,1: simulated peripherals; runs 2,3: the repository's
                # real base peripherals (own Random(0) generator)
                sim = Sim(ModInfo(co.bytes), job.get('script'), budget=40000,
                          impl_kind='sim' if rep < 2 else 'dumb')
                o = sim.run()
            runs.append({'history': sha(json.dumps(sim.history)), 'halt': o['halt'],
                         'trap': o['trap'], 'ticks': o['ticks'], 'exc': (o['exc'] or {}).get('type'),
                         'hang': o['hang'], 'ncalls': len(sim.history)})
        # run 4: the same module on a machine whose instructions are
        # interleaved, under a seeded schedule, with those of a second machine
        # that was built after it (another program, or the same one under
        # another device script) - what one machine does must not depend on
        # other machines living in the process
        oth = job.get('other')
        if oth is not None:
            import random
            with contextlib.redirect_stdout(sink):
                oco = compile_source(oth['text'], oth.get('opt', 0), False, cache=False)
                simA = Sim(ModInfo(co.bytes), job.get('script'), budget=40000)
                simB = Sim(ModInfo(oco.bytes), oth.get('script'), budget=40000) if oco.ok else None
                rnd = random.Random(oth.get('schedule', 0))
                sims = [x for x in (simA, simB) if x is not None]

                def alive(x):
                    return not x.cpu.halted and x.exc is None and not x.hang \
                        and x.cpu.pc < len(x.module.code)
                switches = 0
                while alive(simA):
                    live = [x for x in sims if alive(x)]
                    x = rnd.choice(live)
                    switches += 1
                    for _ in range(rnd.choice((1, 1, 2, 3, 8, 40))):
                        if not alive(x):
                            break
                        x.guarded(x.machine.tick)
                o = simA.outcome()
                halt = o['halt'] if simA.cpu.halted else 'END_OF_CODE'
            runs.append({'history': sha(json.dumps(simA.history)), 'halt': halt,
                         'trap': o['trap'], 'ticks': o['ticks'], 'exc': (o['exc'] or {}).get('type'),
                         'hang': o['hang'], 'ncalls': len(simA.history)})
            out['interleave_switches'] = switches
        out['runs'] = runs
    json.dump(out, sys.stdout)


if __name__ == '__main__':
    main()
