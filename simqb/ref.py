"""Reference interpreter for the reference subset (DESIGN.md appendix A).

A direct interpreter over simqb's own AST, written from QBASIC semantics and
sharing no code with qbee or qvm.  It talks to the same device script and the
same fault plan as the simulated machine and produces the same shape of
history: typed PRINT items, device calls with arguments, the INPUT dialogue,
and the outcome (normal end, or an error of a class raised by a statement).

Semantic decisions are listed in DESIGN.md appendix A; where QBASIC's own
definition is disputed the feature is not generated rather than guessed."""
import math
import struct

from .qast import NUM, RANK, CMP, LOGIC, FN_TYPE, DEV_TYPE, name_type, TypeEnv
from .core import H

TRAP = {'div0': 'DIVISION_BY_ZERO', 'overflow': 'INVALID_CELL_VALUE',
        'subscript': 'INDEX_OUT_OF_RANGE', 'illegal': 'INVALID_OPERAND_VALUE',
        'data': 'DEVICE_ERROR', 'device': 'DEVICE_ERROR', 'uninit': 'UNINITIALIZED_MEM',
        'nogosub': 'RETURN_WITHOUT_GOSUB'}
ERRCODE = {'DIVISION_BY_ZERO': 14, 'INVALID_CELL_VALUE': 10, 'INDEX_OUT_OF_RANGE': 11,
           'INVALID_OPERAND_VALUE': 9, 'DEVICE_ERROR': 3, 'UNINITIALIZED_MEM': 15,
           'RETURN_WITHOUT_GOSUB': 19}
CELLNAME = {'%': 'INTEGER', '&': 'LONG', '!': 'SINGLE', '#': 'DOUBLE', '$': 'STRING'}
LIMITS = {'%': (-32768, 32767), '&': (-2147483648, 2147483647)}
F32_MAX = 3.4028234663852886e+38


class QBError(Exception):
    def __init__(self, kind, msg=''):
        super().__init__(kind, msg)
        self.kind = kind
        self.stmt = None      # id of the innermost statement that failed


class Inconclusive(Exception):
    """The run left the part of the language the reference gives semantics to."""


class _End(Exception):
    pass


class _Goto(Exception):
    def __init__(self, label):
        self.label = label


class _Return(Exception):
    def __init__(self, label=None):
        self.label = label


class _Exit(Exception):
    def __init__(self, what):
        self.what = what


class _Resume(Exception):
    def __init__(self, nxt):
        self.nxt = nxt


class _Interrupt(Exception):
    pass


def f32(x):
    return struct.unpack('>f', struct.pack('>f', x))[0]


def rhe(x):
    """Round half to even (what BASIC does when a float becomes an integer)."""
    if math.isinf(x) or math.isnan(x):
        raise QBError('overflow')
    return int(round(x))


def fit(ty, v):
    """Store a numeric value in a location of type ty."""
    if ty in '%&':
        if isinstance(v, float):
            v = rhe(v)
        lo, hi = LIMITS[ty]
        if v < lo or v > hi:
            raise QBError('overflow')
        return int(v)
    if ty == '!':
        v = float(v)
        if math.isinf(v) or math.isnan(v):
            raise QBError('overflow')
        if abs(v) > F32_MAX:
            # rounds to a finite float32 only very close to the limit
            try:
                return f32(v)
            except OverflowError:
                raise QBError('overflow')
        return f32(v)
    if ty == '#':
        v = float(v)
        if math.isinf(v) or math.isnan(v):
            raise QBError('overflow')
        return v
    raise ValueError(ty)


def strkey(s):
    """Strings are ordered by character code (code page 437)."""
    try:
        return s.encode('cp437')
    except UnicodeEncodeError:
        return s.encode('utf-8', 'replace')


def default(ty):
    return '' if ty == '$' else (0 if ty in '%&' else 0.0)


class Cell:
    __slots__ = ('ty', 'v')

    def __init__(self, ty, v=None):
        self.ty = ty
        self.v = default(ty) if v is None else v


class Array:
    def __init__(self, ty, bounds, env):
        self.ty = ty
        self.bounds = bounds
        self.items = {}
        self.env = env

    def at(self, idx):
        for i, (lb, ub) in zip(idx, self.bounds):
            if i < lb or i > ub:
                raise QBError('subscript')
        c = self.items.get(idx)
        if c is None:
            c = self.items[idx] = make_storage(self.ty, self.env)
        return c


def make_storage(ty, env):
    if ty.startswith('T:'):
        return {fn: make_storage(ft, env) for fn, ft in env.types[ty[2:]]}
    return Cell(ty)


class StaticVars:
    """Variables of one activation of a SUB / FUNCTION ... STATIC: the
    parameters (and the function's result) belong to the activation, every
    other local is shared by all activations and survives them."""

    def __init__(self, own, keep):
        self.own = own
        self.keep = keep

    def __contains__(self, n):
        return n in self.own or n in self.keep

    def __getitem__(self, n):
        return self.own[n] if n in self.own else self.keep[n]

    def get(self, n, d=None):
        if n in self.own:
            return self.own[n]
        return self.keep.get(n, d)

    def __setitem__(self, n, v):
        if n in self.own:
            self.own[n] = v
        else:
            self.keep[n] = v

    def items(self):
        d = dict(self.keep)
        d.update(self.own)
        return d.items()


class Scope:
    def __init__(self, kind, name):
        self.kind = kind
        self.name = name
        self.vars = {}


class Devices:
    """The device side of the reference machine: same script, same fault plan
    (faults are addressed by (operation, n-th execution) so that they do not
    depend on how many low-level calls an operation makes)."""

    def __init__(self, script, plan):
        self.script = script
        self.events = []
        self.clock = float(script.get('clock0', 0.0))
        self.deltas = script.get('deltas') or [0.0]
        self.n_input = self.n_inkey = self.n_rnd = self.n_peek = 0
        self.last_rnd = None
        self.ncalls = 0        # low-level calls, for the virtual clock
        self.op_count = {}
        self.faults = {}
        for f in plan:
            if f['kind'] in ('F1op', 'F5op'):
                self.faults[(f['op'], f['nth'])] = f
        self.fired = {}

    def tick_clock(self, n=1):
        for _ in range(n):
            self.ncalls += 1
            self.clock += self.deltas[(self.ncalls - 1) % len(self.deltas)]

    def op(self, name):
        """Start of a device operation; may inject its fault."""
        k = self.op_count.get(name, 0) + 1
        self.op_count[name] = k
        f = self.faults.get((name, k))
        if f is not None:
            self.fired[f['kind']] = self.fired.get(f['kind'], 0) + 1
            return f
        return None


class Interp:
    def __init__(self, prog, script, plan=(), budget=40000):
        self.prog = prog
        self.env = TypeEnv(prog)
        self.dev = Devices(script, plan)
        self.budget = budget
        self.steps = 0
        self.shared = {}
        self.shared_names = set()
        self.consts = {}
        self.statics = {}
        self.main = Scope('main', '_main')
        self.scopes = [self.main]
        self.data = []
        self.data_pos = 0
        self.onerr = None          # None | ('goto', label) | ('next',)
        self.in_handler = False
        self.err = 0
        self.outcome = None
        self.stmt_trace = []       # ids of executed statements (starts)
        self.trace = True
        self.labels = {}
        self.cur_stmt = None
        self.fail_stmt = None
        self.last_kind = None
        self.part = None           # sub-line part of a block statement being evaluated
        self.resumed = False
        self.header_errors = 0
        self._collect()

    # -- preparation ------------------------------------------------------------

    def _collect(self):
        self.dimmed = set()
        self.data_label_pos = {}
        pending = []

        def walk(body):
            for s in body:
                if s['k'] == 'dim' and s.get('bounds') is not None:
                    self.dimmed.add(s['name'])
                if s['k'] == 'label':
                    pending.append(s['name'])
                if s['k'] == 'data':
                    # RESTORE <label>: the first item of the first DATA
                    # statement at or after the label
                    for lab in pending:
                        self.data_label_pos[lab] = len(self.data)
                    del pending[:]
                    for it in s['items']:
                        self.data.append(it)
                for k in ('body', 'els', 'then'):
                    if isinstance(s.get(k), list):
                        walk(s[k])
                if s['k'] == 'if':
                    for c, b in s['arms']:
                        walk(b)
                if s['k'] == 'select':
                    for t, b in s['cases']:
                        walk(b)
                if s['k'] == 'multi':
                    walk(s['stmts'])
        walk(self.prog['main'])
        for p in self.prog.get('procs', []):
            walk(p['body'])
        for i, s in enumerate(self.prog['main']):
            if s['k'] == 'label':
                self.labels[s['name']] = i

    # -- storage ----------------------------------------------------------------

    @property
    def scope(self):
        return self.scopes[-1]

    def lookup(self, name, create_ty=None):
        sc = self.scope
        if name in sc.vars:
            return sc.vars[name]
        if name in self.shared:
            return self.shared[name]
        if name in self.consts:
            return self.consts[name]
        ty = create_ty or name_type(name)
        if ty is None:
            raise Inconclusive('untyped implicit variable ' + name)
        c = sc.vars[name] = Cell(ty)
        return c

    def lv_cell(self, lv):
        k = lv[0]
        if k == 'var':
            return self.lookup(lv[1])
        if k == 'idx':
            arr = self.lookup_array(lv[1], len(lv[2]))
            idx = tuple(self.index_value(e) for e in lv[2])
            if len(idx) != len(arr.bounds):
                raise Inconclusive('rank mismatch')
            return arr.at(idx)
        if k == 'fld':
            base = self.lv_cell(lv[1])
            for f in lv[2]:
                base = base[f]
            return base
        raise Inconclusive('not an lvalue: %r' % (lv,))

    def lookup_array(self, name, rank=None):
        sc = self.scope
        a = sc.vars.get(name)
        if a is None:
            a = self.shared.get(name)
        if a is None:
            if name in self.dimmed:
                raise Inconclusive('array used before its DIM executed')
            ty = name_type(name)
            if ty is None or rank is None:
                raise Inconclusive('implicit array without a type suffix')
            # implicitly dimensioned array: 0 TO 10 in every dimension
            a = sc.vars[name] = Array(ty, [(0, 10)] * rank, self.env)
        return a

    def index_value(self, e):
        t, v = self.ev(e)
        if t == '$':
            raise Inconclusive('string index')
        return fit('&', v)

    # -- expressions ------------------------------------------------------------

    def ev(self, e):
        k = e[0]
        if k == 'lit':
            t, v = e[1], e[2]
            if t == '!':
                v = f32(float(v))
            elif t == '#':
                v = float(v)
            return t, v
        if k in ('var', 'idx', 'fld'):
            if k == 'var' and e[1] in self.consts and e[1] not in self.scope.vars:
                c = self.consts[e[1]]
                return c.ty, c.v
            c = self.lv_cell(e)
            if not isinstance(c, Cell):
                raise Inconclusive('record used as a value')
            return c.ty, c.v
        if k == 'par':
            return self.ev(e[1])
        if k == 'un':
            t, v = self.ev(e[2])
            if e[1] == 'pos':
                return t, v
            if e[1] == 'neg':
                return t, fit(t, -v)
            rt = '%' if t == '%' else '&'
            return rt, fit(rt, ~fit(rt, v))
        if k == 'bin':
            return self.binop(e[1], e[2], e[3])
        if k == 'fn':
            return self.builtin(e[1], e[2])
        if k == 'dev':
            return self.devfn(e[1], e[2])
        if k == 'call':
            return self.call_function(e[1], e[2])
        raise Inconclusive('expression outside the subset: %r' % (e[0],))

    def binop(self, op, a, b):
        ta, va = self.ev(a)
        tb, vb = self.ev(b)
        if op in CMP:
            if (ta == '$') != (tb == '$'):
                raise Inconclusive('mixed comparison')
            if ta != '$':
                w = ta if RANK[ta] >= RANK[tb] else tb
                va, vb = fit(w, va), fit(w, vb)
            else:
                va, vb = strkey(va), strkey(vb)
            r = {'=': va == vb, '<>': va != vb, '<': va < vb, '>': va > vb,
                 '<=': va <= vb, '>=': va >= vb}[op]
            return '%', -1 if r else 0
        if ta == '$' or tb == '$':
            if op == '+' and ta == tb == '$':
                if len(va) + len(vb) > 100000:
                    # (qbee has no 32767-character cap; the machine side stops
                    # such runs as inconclusive too)
                    raise Inconclusive('string growth')
                return '$', va + vb
            raise Inconclusive('string operand')
        if op in LOGIC or op in ('\\', 'mod'):
            rt = '%' if (ta == '%' and tb == '%') else '&'
            x, y = fit(rt, va), fit(rt, vb)
            if op in ('\\', 'mod'):
                if y == 0:
                    raise QBError('div0')
                q = abs(x) // abs(y)
                if (x < 0) != (y < 0):
                    q = -q
                return rt, fit(rt, q if op == '\\' else x - y * q)
            r = {'and': x & y, 'or': x | y, 'xor': x ^ y, 'eqv': ~(x ^ y),
                 'imp': (~x) | y}[op]
            return rt, fit(rt, r)
        w = ta if RANK[ta] >= RANK[tb] else tb
        if op == '/':
            rt = '#' if w == '#' else '!'
            x, y = fit(rt, va), fit(rt, vb)
            if y == 0:
                raise QBError('div0')
            return rt, fit(rt, x / y)
        x, y = fit(w, va), fit(w, vb)
        r = {'+': x + y, '-': x - y, '*': x * y}[op]
        if w in '!#' and (math.isinf(r) or math.isnan(r)):
            raise QBError('overflow')
        return w, fit(w, r)

    def builtin(self, name, args):
        if name in ('lbound', 'ubound'):
            arr = self.lookup_array(args[0][1])
            d = 1
            if len(args) > 1:
                d = fit('&', self.ev(args[1])[1])
            if d < 1 or d > len(arr.bounds):
                raise QBError('subscript')
            return '&', arr.bounds[d - 1][0 if name == 'lbound' else 1]
        vals = [self.ev(a) for a in args]
        if name == 'abs':
            t, v = vals[0]
            return t, fit(t, abs(v))
        if name == 'asc':
            s = vals[0][1]
            if s == '':
                raise QBError('illegal')
            return '%', ord(s[0].encode('cp437', 'replace')[:1] or b'?')
        if name == 'chr$':
            n = fit('%', vals[0][1])
            if n < 0 or n > 255:
                raise QBError('illegal')
            return '$', bytes([n]).decode('cp437')
        if name == 'cint':
            return '%', fit('%', vals[0][1])
        if name == 'clng':
            return '&', fit('&', vals[0][1])
        if name == 'int':
            v = vals[0][1]
            if isinstance(v, float) and (math.isinf(v) or math.isnan(v)):
                raise Inconclusive('INT of non-finite')
            return '&', fit('&', math.floor(v))
        if name == 'len':
            return '&', len(vals[0][1])
        if name == 'instr':
            if len(vals) == 3:
                start = fit('&', vals[0][1])
                s, t = vals[1][1], vals[2][1]
            else:
                start = 1
                s, t = vals[0][1], vals[1][1]
            if start <= 0:
                raise QBError('illegal')
            if t == '':
                raise Inconclusive('INSTR with an empty pattern')
            i = s.find(t, start - 1)
            return '&', i + 1
        if name in ('lcase$', 'ucase$'):
            s = vals[0][1]
            f = str.lower if name == 'lcase$' else str.upper
            return '$', ''.join(f(c) if ord(c) < 128 else c for c in s)
        if name == 'ltrim$':
            return '$', vals[0][1].lstrip(' ')
        if name == 'rtrim$':
            return '$', vals[0][1].rstrip(' ')
        if name in ('left$', 'right$'):
            s = vals[0][1]
            n = fit('%', vals[1][1])
            if n < 0:
                raise QBError('illegal')
            if name == 'left$':
                return '$', s[:n]
            return '$', s[len(s) - n:] if n < len(s) else s
        if name == 'mid$':
            s = vals[0][1]
            start = fit('%', vals[1][1])
            if start <= 0:
                raise QBError('illegal')
            if len(vals) > 2:
                n = fit('%', vals[2][1])
                if n < 0:
                    raise QBError('illegal')
                return '$', s[start - 1:start - 1 + n]
            return '$', s[start - 1:]
        if name == 'space$':
            n = fit('%', vals[0][1])
            if n < 0:
                raise QBError('illegal')
            return '$', ' ' * n
        if name == 'string$':
            n = fit('%', vals[0][1])
            if n < 0:
                raise QBError('illegal')
            t, v = vals[1]
            if t == '$':
                if v == '':
                    raise QBError('illegal')
                ch = v[0]
            else:
                c = fit('%', v)
                if c < 0 or c > 255:
                    raise QBError('illegal')
                ch = bytes([c]).decode('cp437')
            return '$', ch * n
        if name == 'str$':
            t, v = vals[0]
            if t not in '%&':
                raise Inconclusive('STR$ of a float')
            return '$', (' ' if v >= 0 else '') + str(v)
        if name == 'val':
            s = vals[0][1].strip(' ')
            import re
            if not re.fullmatch(r'-?[0-9]+(\.[0-9]+)?', s):
                if s == '' or not re.match(r'[-+.0-9&]', s):
                    return '#', 0.0
                raise Inconclusive('VAL of a non-plain numeral')
            return '#', float(s)
        raise Inconclusive('builtin ' + name)

    def devfn(self, name, args):
        d = self.dev
        if name == 'err':
            return '%', self.err
        if name == 'timer':
            f = d.op('time.get_time')
            d.tick_clock()
            d.events.append(['call', 'time_get_time'])
            self.device_fault(f)
            return '!', f32(d.clock % 86400.0)
        if name == 'inkey$':
            f = d.op('terminal.inkey')
            d.tick_clock()
            d.events.append(['call', 'terminal_inkey'])
            self.device_fault(f)
            keys = d.script.get('inkey') or []
            d.n_inkey += 1
            return '$', keys[d.n_inkey - 1] if d.n_inkey <= len(keys) else ''
        if name == 'peek':
            off = fit('&', self.ev(args[0])[1])
            f = d.op('memory.peek')
            d.tick_clock()
            d.events.append(['call', 'memory_peek', off])
            self.device_fault(f)
            p = d.script.get('peek') or [0]
            v = p[d.n_peek % len(p)]
            d.n_peek += 1
            return '%', fit('%', v)
        if name == 'rnd':
            x = 1.0
            if args:
                x = fit('!', self.ev(args[0])[1])
            f = d.op('rng.rnd')
            if x == 0 and d.last_rnd is not None:
                self.device_fault(f, called=False)
                return '!', d.last_rnd
            d.tick_clock()
            if x < 0:
                d.events.append(['call', 'rng_get_with_seed', x])
                self.device_fault(f)
                v = (H('rnd-seed', repr(x)) % 4096) / 4096.0
            else:
                d.events.append(['call', 'rng_get_next'])
                self.device_fault(f)
                r = d.script.get('rnd') or [0.5]
                v = r[d.n_rnd % len(r)]
                d.n_rnd += 1
            d.last_rnd = f32(v)
            return '!', d.last_rnd
        raise Inconclusive('device function ' + name)

    def device_fault(self, f, called=True):
        if f is None:
            return
        if f['kind'] == 'F1op':
            if not called:
                raise Inconclusive('fault on an operation that makes no device call')
            raise QBError('device')
        if f['kind'] == 'F5op':
            raise _Interrupt()

    # -- procedures -------------------------------------------------------------

    def bind_args(self, proc, args):
        new = Scope(proc['kind'], proc['name'])
        for (pn, pty, isarr), a in zip(proc['params'], args):
            if isarr:
                new.vars[pn] = self.lookup_array(a[1])
                continue
            if pty.startswith('T:'):
                c = self.lv_cell(a)
                if not isinstance(c, dict):
                    raise Inconclusive('record parameter bound to a non-record')
                new.vars[pn] = c              # records: always by reference
                continue
            if a[0] in ('var', 'idx', 'fld') and not (a[0] == 'var' and a[1] in self.consts
                                                       and a[1] not in self.scope.vars):
                c = self.lv_cell(a)
                if isinstance(c, Cell) and c.ty == pty:
                    new.vars[pn] = c          # by reference
                    continue
                if not isinstance(c, Cell):
                    raise Inconclusive('record argument')
                raise Inconclusive('by-reference type mismatch')
            t, v = self.ev(a)
            if (t == '$') != (pty == '$'):
                raise Inconclusive('argument kind mismatch')
            new.vars[pn] = Cell(pty, v if pty == '$' else fit(pty, v))
        return new

    def run_proc(self, proc, args):
        if len(self.scopes) > 40:
            raise Inconclusive('recursion too deep')
        new = self.bind_args(proc, args)
        st = self.statics.setdefault(proc['name'], {})
        new.statics = st
        if proc.get('static'):
            # SUB/FUNCTION ... STATIC: every local keeps its value between
            # calls (parameters are bound afresh)
            keep = self.statics.setdefault(proc['name'] + ' (all locals)', {})
            own = dict(new.vars)
            if proc['kind'] == 'function':
                own[proc['name']] = Cell(name_type(proc['name']))
            new.vars = StaticVars(own, keep)
        elif proc['kind'] == 'function':
            new.vars[proc['name']] = Cell(name_type(proc['name']))
        self.scopes.append(new)
        try:
            try:
                self.block(proc['body'])
            except _Exit as x:
                if x.what not in ('sub', 'function'):
                    raise Inconclusive('EXIT ' + x.what + ' outside its loop')
        finally:
            self.scopes.pop()
        if proc['kind'] == 'function':
            c = new.vars[proc['name']]
            return c.ty, c.v
        return None

    def call_function(self, name, args):
        proc = self.env.procs.get(name)
        if proc is None:
            raise Inconclusive('unknown function ' + name)
        return self.run_proc(proc, args)

    # -- statements -------------------------------------------------------------

    def block(self, body):
        for s in body:
            self.stmt(s)

    def stmt(self, s):
        """Execute one statement with statement-level error semantics."""
        k = s['k']
        if k == 'multi':
            for x in s['stmts']:
                self.stmt(x)
            return
        self.steps += 1
        if self.steps > self.budget:
            raise Inconclusive('budget')
        while True:
            # (every pass counts: a handler that RESUMEs a statement it did not
            # repair retries it for ever)
            self.steps += 1
            if self.steps > self.budget:
                raise Inconclusive('budget')
            prev = self.cur_stmt
            self.cur_stmt = s
            if self.trace and 'id' in s:
                self.stmt_trace.append(s['id'])
            try:
                self.exec(s)
                self.cur_stmt = prev
                return
            except QBError as e:
                if e.stmt is None:
                    e.stmt = s.get('id')
                    e.stmt_kind = k
                if e.stmt != s.get('id') and not (
                        isinstance(e.stmt, str) and e.stmt.split('.')[0] == str(s.get('id'))):
                    raise            # already attributed to an inner statement
                code = ERRCODE[TRAP[e.kind]]
                if self.in_handler or self.onerr is None:
                    raise
                if k in ('if', 'ifl', 'for', 'while', 'do', 'select'):
                    raise Inconclusive('handled error in a block header')
                self.err = code
                self.last_kind = e.kind
                self.resumed = True
                if self.onerr[0] == 'next':
                    self.cur_stmt = prev
                    return
                # ON ERROR GOTO label: the handler is module-level code
                act = self.run_handler(self.onerr[1])
                self.cur_stmt = prev
                if act == 'next':
                    return
                # RESUME: execute the statement again

    def header(self, fn, s, part, on_next):
        """Evaluate the header or tail part of a block statement (an IF /
        ELSEIF / WHILE / DO / LOOP condition, the tests of one CASE line, the
        increment of NEXT) with statement-level error semantics: RESUME
        evaluates that line again, RESUME NEXT (and ON ERROR RESUME NEXT)
        continues with the statement that follows the line in the text, which
        the caller expresses as the value `on_next`."""
        sid = f"{s.get('id')}.{part}" if part else s.get('id')
        while True:
            self.steps += 1
            if self.steps > self.budget:
                raise Inconclusive('budget')
            saved = self.part
            if part:
                self.part = sid
            try:
                return fn()
            except QBError as e:
                if e.stmt is None:
                    e.stmt = sid
                    e.stmt_kind = s['k']
                if e.stmt != sid or self.in_handler or self.onerr is None:
                    raise
                self.err = ERRCODE[TRAP[e.kind]]
                self.last_kind = e.kind
                self.resumed = True
                self.header_errors += 1
                if self.onerr[0] == 'next':
                    return on_next
                prev = self.cur_stmt
                self.part = saved          # the handler's statements are not part of this line
                act = self.run_handler(self.onerr[1])
                self.cur_stmt = prev
                if act == 'next':
                    return on_next
            finally:
                self.part = saved

    def run_handler(self, label):
        self.in_handler = True
        saved = self.scopes
        self.scopes = [self.main]
        try:
            try:
                self.run_main_from(self.labels[label] + 1)
            except _Resume as r:
                return 'next' if r.nxt else 'again'
            raise Inconclusive('handler fell off the end of the program')
        finally:
            self.scopes = saved
            self.in_handler = False

    def assign(self, lv, t, v):
        c = self.lv_cell(lv)
        if not isinstance(c, Cell):
            raise Inconclusive('record assignment')
        if (c.ty == '$') != (t == '$'):
            raise Inconclusive('assignment kind mismatch')
        c.v = v if c.ty == '$' else fit(c.ty, v)

    def exec(self, s):
        k = s['k']
        d = self.dev
        if k == 'let':
            t, v = self.ev(s['e'])
            self.assign(s['lv'], t, v)
        elif k == 'print':
            items = []
            for e, sep in s['items']:
                if e is not None:
                    t, v = self.ev(e)
                    items.append(['v', CELLNAME[t], v])
                if sep:
                    items.append(sep)
            f = d.op('terminal.print')
            d.tick_clock()
            d.events.append(['print', items])
            self.device_fault(f)
        elif k == 'input':
            self.do_input(s)
        elif k == 'read':
            for lv in s['lvs']:
                f = d.op('data.read')
                if f is not None:
                    raise Inconclusive('fault on DATA (no device call)')
                exhausted = self.data_pos >= len(self.data)
                try:
                    c = self.lv_cell(lv)
                except QBError:
                    if exhausted or self.onerr is not None:
                        # two errors in one READ item; which is reported
                        # depends on an unspecified evaluation order
                        raise Inconclusive('READ: bad target (data consumption unspecified)')
                    raise
                if exhausted:
                    raise QBError('data')
                item = self.data[self.data_pos]
                c.v = self.convert_data(item, c.ty)
                self.data_pos += 1
        elif k == 'data' or k == 'label':
            pass
        elif k == 'restore':
            if s.get('label'):
                if s['label'] not in self.data_label_pos:
                    raise Inconclusive('RESTORE to a label without DATA after it')
                self.data_pos = self.data_label_pos[s['label']]
            else:
                self.data_pos = 0
        elif k == 'if':
            for i, (cond, body) in enumerate(s['arms']):
                # (RESUME NEXT after a failing IF / ELSEIF condition goes on
                # with the first statement of that branch)
                if self.header(lambda: self.truth(cond), s, f'arm{i}' if i else None, True):
                    self.block(body)
                    return
            if s.get('els') is not None:
                self.block(s['els'])
        elif k == 'ifl':
            if self.truth(s['cond']):
                self.block(s['then'])
            elif s.get('els'):
                self.block(s['els'])
        elif k == 'for':
            self.do_for(s)
        elif k == 'while':
            while self.header(lambda: self.truth(s['cond']), s, None, True):
                self.loop_guard()
                self.block(s['body'])
        elif k == 'do':
            try:
                while True:
                    self.loop_guard()
                    if s.get('pre'):
                        # next statement after a failing DO line: the body
                        w = s['pre'][0] == 'while'
                        c = self.header(lambda: self.truth(s['pre'][1]), s, None, w)
                        if w != c:
                            break
                    self.block(s['body'])
                    if s.get('post'):
                        # next statement after a failing LOOP line: behind the loop
                        w = s['post'][0] == 'while'
                        c = self.header(lambda: self.truth(s['post'][1]), s, 'loop', not w)
                        if w != c:
                            break
            except _Exit as x:
                if x.what != 'do':
                    raise
        elif k == 'exit':
            raise _Exit(s['what'])
        elif k == 'select':
            self.do_select(s)
        elif k == 'goto':
            if self.scope.kind != 'main':
                raise Inconclusive('GOTO in a procedure')
            raise _Goto(s['label'])
        elif k == 'gosub':
            if self.scope.kind != 'main':
                raise Inconclusive('GOSUB in a procedure')
            if len(self.scopes) > 1 or self.gosub_depth > 30:
                raise Inconclusive('GOSUB depth')
            self.gosub_depth += 1
            try:
                self.run_main_from(self.labels[s['label']] + 1)
                raise _End()       # ran into the end of the program: it ends
            except _Return as rt:
                if rt.label:
                    # RETURN <label>: the GOSUB is finished, control goes to
                    # the label instead of the statement after the GOSUB
                    self.gosub_depth -= 1
                    self._ret_goto = True
                    raise _Goto(rt.label)
            finally:
                if not getattr(self, '_ret_goto', False):
                    self.gosub_depth -= 1
                self._ret_goto = False
        elif k == 'return':
            if self.scope.kind != 'main' or self.gosub_depth == 0:
                # no GOSUB is pending in this routine: a run-time error
                raise QBError('nogosub')
            raise _Return(s.get('label'))
        elif k == 'call':
            proc = self.env.procs.get(s['name'])
            if proc is None:
                raise Inconclusive('unknown sub')
            self.run_proc(proc, s['args'])
        elif k == 'onerr':
            if self.in_handler and s['mode'] == 'off' and self.last_kind is not None:
                # ON ERROR GOTO 0 inside a handler reports the error that
                # is being handled, as if no handler had been armed
                raise QBError(self.last_kind)
            if self.in_handler:
                raise Inconclusive('ON ERROR inside a handler')
            if s['mode'] == 'goto':
                self.onerr = ('goto', s['label'])
            elif s['mode'] == 'off':
                self.onerr = None
            else:
                self.onerr = ('next',)
        elif k == 'resume':
            if not self.in_handler:
                raise Inconclusive('RESUME outside a handler')
            raise _Resume(bool(s.get('next')))
        elif k == 'end':
            raise _End()
        elif k == 'beep':
            f = d.op('pcspkr.beep')
            d.tick_clock()
            d.events.append(['call', 'pcspkr_beep'])
            self.device_fault(f)
        elif k == 'cls':
            f = d.op('terminal.cls')
            d.tick_clock()
            d.events.append(['call', 'terminal_cls'])
            self.device_fault(f)
        elif k == 'sound':
            fr = fit('%', self.ev(s['f'])[1])
            du = fit('&', self.ev(s['d'])[1])
            f = d.op('pcspkr.sound')
            d.tick_clock()
            d.events.append(['call', 'pcspkr_sound', fr, du])
            self.device_fault(f)
        elif k == 'poke':
            off = fit('&', self.ev(s['a'])[1])
            val = fit('%', self.ev(s['v'])[1])
            f = d.op('memory.poke')
            if val < 0 or val > 255:
                self.device_fault(f, called=False)
                raise QBError('device')
            d.tick_clock()
            d.events.append(['call', 'memory_poke', off, val])
            self.device_fault(f)
        elif k == 'defseg':
            if s.get('e') is None:
                f = d.op('memory.set_default_segment')
                d.tick_clock()
                d.events.append(['call', 'memory_set_default_segment'])
                self.device_fault(f)
            else:
                seg = fit('&', self.ev(s['e'])[1])
                f = d.op('memory.set_segment')
                if seg < 0 or seg > 65535:
                    self.device_fault(f, called=False)
                    raise QBError('device')
                d.tick_clock()
                d.events.append(['call', 'memory_set_segment', seg])
                self.device_fault(f)
        elif k == 'randomize':
            v = fit('!', self.ev(s['e'])[1])
            f = d.op('rng.seed')
            d.tick_clock()
            d.events.append(['call', 'rng_seed', v])
            self.device_fault(f)
        elif k == 'dim':
            self.do_dim(s)
        elif k == 'static':
            sc = self.scope
            st = getattr(sc, 'statics', None)
            if st is None:
                raise Inconclusive('STATIC at module level')
            if s['name'] not in st:
                st[s['name']] = Cell(s['ty'])
            sc.vars[s['name']] = st[s['name']]
        elif k == 'const':
            t, v = self.ev(s['e'])
            ct = name_type(s['name']) or t
            c = Cell(ct, v if ct == '$' else fit(ct, v))
            if self.scope.kind == 'main':
                self.consts[s['name']] = c
            else:
                self.scope.vars[s['name']] = c      # local to the procedure
        elif k == 'raw':
            raise Inconclusive('statement outside the reference subset')
        else:
            raise Inconclusive('statement kind ' + k)

    gosub_depth = 0

    def loop_guard(self):
        self.steps += 1
        if self.steps > self.budget:
            raise Inconclusive('budget')

    def sub_truth(self, cond, s, part):
        """A condition that sits on a line of its own inside a block statement
        (ELSEIF, LOOP WHILE/UNTIL): errors are attributed to that line."""
        if part is None:
            return self.truth(cond)
        saved = self.part
        self.part = f"{s.get('id')}.{part}"
        try:
            return self.truth(cond)
        except QBError as e:
            if e.stmt is None:
                e.stmt = f"{s.get('id')}.{part}"
            raise
        finally:
            self.part = saved

    def truth(self, cond):
        t, v = self.ev(cond)
        if t == '$':
            raise Inconclusive('string condition')
        return v != 0

    def do_dim(self, s):
        ty = s['ty']
        if s.get('bounds') is None:
            # DIM of a scalar or record declares it; it is not an assignment:
            # a variable that exists already (a second pass through the DIM, a
            # local of a SUB ... STATIC on a later call) keeps its value
            target = self.shared if s.get('shared') else self.scope.vars
            if s['name'] not in target:
                target[s['name']] = make_storage(ty, self.env)
            return
        bounds = []
        for lb, ub in s['bounds']:
            lo = 0 if lb is None else fit('&', self.ev(lb)[1])
            hi = fit('&', self.ev(ub)[1])
            if lo > hi:
                raise QBError('subscript')
            bounds.append((lo, hi))
        target = self.shared if s.get('shared') else self.scope.vars
        old = target.get(s['name'])
        if isinstance(old, Array):
            static = all((lb is None or lb[0] == 'lit') and ub[0] == 'lit' for lb, ub in s['bounds'])
            if static and old.bounds == bounds:
                return       # DIM of a static array is not executable: contents stay
            raise Inconclusive('array dimensioned twice')
        target[s['name']] = Array(ty, bounds, self.env)

    def do_for(self, s):
        c = self.lookup(s['var'])
        a = self.ev(s['a'])[1]
        b = fit(c.ty, self.ev(s['b'])[1])
        step = 1 if s.get('step') is None else self.ev(s['step'])[1]
        step = fit(c.ty, step)
        c.v = fit(c.ty, a)
        try:
            # runs while (var - limit) * sgn(step) <= 0; a zero step never ends
            while (c.v <= b) if step > 0 else ((c.v >= b) if step < 0 else True):
                self.loop_guard()
                self.block(s['body'])
                # an overflowing NEXT leaves the variable alone; the statement
                # after it is the one behind the loop
                nv = self.header(lambda: fit(c.ty, c.v + step), s, 'next', None)
                if nv is None:
                    break
                c.v = nv
        except _Exit as x:
            if x.what != 'for':
                raise

    def do_select(self, s):
        t, v = self.ev(s['e'])

        def conv(e):
            t2, v2 = self.ev(e)
            if (t == '$') != (t2 == '$'):
                raise Inconclusive('mixed SELECT')
            if t == '$':
                return strkey(v), strkey(v2)
            w = t if RANK[t] >= RANK[t2] else t2
            return fit(w, v), fit(w, v2)

        def test(ts):
            if ts[0] == 'eq':
                x, y = conv(ts[1])
                return x == y
            if ts[0] == 'range':
                x, lo = conv(ts[1])
                x2, hi = conv(ts[2])
                return lo <= x and x2 <= hi
            x, y = conv(ts[2])
            return {'=': x == y, '<>': x != y, '<': x < y, '>': x > y,
                    '<=': x <= y, '>=': x >= y}[ts[1]]
        for ci, (tests, body) in enumerate(s['cases']):
            def clause(tests=tests):
                # every test of the clause is evaluated (an error in a later
                # test of a matching clause still happens)
                hit = False
                for ts in tests:
                    hit = test(ts) or hit
                return hit
            # (next statement after a failing CASE line: the first one of its body)
            hit = self.header(clause, s, f'case{ci}', True)
            if hit:
                self.block(body)
                return
        if s.get('els') is not None:
            self.block(s['els'])

    def convert_data(self, item, ty):
        q = item.strip(' ')
        quoted = len(q) >= 2 and q[0] == '"' and q[-1] == '"'
        if ty == '$':
            return q[1:-1] if quoted else q
        if q == '':
            return default(ty)
        if quoted:
            raise QBError('data')
        import re
        if not re.fullmatch(r'[+-]?([0-9]+\.?[0-9]*|\.[0-9]+)', q):
            raise QBError('data')
        if ty in '%&' and not re.fullmatch(r'[+-]?[0-9]+', q):
            raise Inconclusive('non-integer DATA item read into an integer variable')
        # a well-formed number the variable cannot hold is an overflow
        return fit(ty, float(q) if ty in '!#' else int(q))

    def do_input(self, s):
        d = self.dev
        # the targets are only located when they are assigned (subscripts are
        # evaluated after the dialogue); their types are static
        tys = [self.static_type(lv) for lv in s['lvs']]
        prompt = s.get('prompt')
        q = '? ' if (prompt is None or s.get('psep') == ';') else ''
        shown = (prompt or '') + q
        f = d.op('terminal.input')
        first = True
        while True:
            self.loop_guard()
            if first and f is not None:
                # the fault hits the first low-level call: the prompt print
                d.tick_clock()
                d.events.append(['text', prompt or ''])
                self.device_fault(f)
            first = False
            # low-level calls of one attempt: prompt, optional "? ", input
            d.tick_clock(2 if q == '' else 3)
            d.events.append(['text', shown])
            d.events.append(['input', bool(s.get('semi'))])
            d.n_input += 1
            lines = d.script.get('input_lines') or []
            if d.n_input > len(lines):
                raise QBError('device')       # the scripted operator walked away
            line = lines[d.n_input - 1]
            vals = self.parse_response(line, tys)
            if vals is not None:
                break
            d.tick_clock()
            d.events.append(['text', 'Redo from start\r\n'])
        for lv, v in zip(s['lvs'], vals):
            c = self.lv_cell(lv)
            if not isinstance(c, Cell):
                raise Inconclusive('record INPUT target')
            c.v = v

    def static_type(self, lv):
        k = lv[0]
        if k == 'var':
            c = self.scope.vars.get(lv[1]) or self.shared.get(lv[1])
            if isinstance(c, Cell):
                return c.ty
            t = name_type(lv[1])
            if t is None:
                raise Inconclusive('untyped target')
            return t
        if k == 'idx':
            a = self.scope.vars.get(lv[1]) or self.shared.get(lv[1])
            if isinstance(a, Array):
                if a.ty.startswith('T:'):
                    raise Inconclusive('record INPUT target')
                return a.ty
            t = name_type(lv[1])
            if t is None:
                raise Inconclusive('untyped target')
            return t
        if k == 'fld':
            base = lv[1]
            if base[0] == 'var':
                st = self.scope.vars.get(base[1]) or self.shared.get(base[1])
            else:
                a = self.scope.vars.get(base[1]) or self.shared.get(base[1])
                st = None
                if isinstance(a, Array) and a.ty.startswith('T:'):
                    return self.env.field_type(a.ty, lv[2])
            if isinstance(st, dict):
                for f in lv[2]:
                    st = st[f]
                if isinstance(st, Cell):
                    return st.ty
            raise Inconclusive('cannot type INPUT target')
        raise Inconclusive('not an lvalue')

    def parse_response(self, line, tys):
        import re
        fields = [x.strip(' ') for x in line.split(',')]
        if len(fields) != len(tys):
            return None
        out = []
        for x, t in zip(fields, tys):
            if t == '$':
                out.append(x)
                continue
            if t in '%&':
                if not re.fullmatch(r'[+-]?[0-9]+', x):
                    if re.fullmatch(r'[+-]?([0-9]+\.?[0-9]*|\.[0-9]+)([eEdD][+-]?[0-9]+)?', x) or x == '':
                        raise Inconclusive('response whose verdict is disputed')
                    return None
                v = int(x)
                lo, hi = LIMITS[t]
                if v < lo or v > hi:
                    return None
                out.append(v)
            else:
                if not re.fullmatch(r'[+-]?([0-9]+\.?[0-9]*|\.[0-9]+)', x):
                    if re.fullmatch(r'[+-]?([0-9]+\.?[0-9]*|\.[0-9]+)[eEdD][+-]?[0-9]+', x) or x == '':
                        raise Inconclusive('response whose verdict is disputed')
                    return None
                v = float(x)
                if t == '!' and abs(v) > F32_MAX:
                    return None
                out.append(fit(t, v))
        return out

    # -- whole program ----------------------------------------------------------

    def run_main_from(self, i):
        main = self.prog['main']
        while i < len(main):
            try:
                self.stmt(main[i])
                i += 1
            except _Goto as g:
                if g.label not in self.labels:
                    raise Inconclusive('GOTO to a nested label')
                i = self.labels[g.label] + 1

    def run(self):
        try:
            try:
                self.run_main_from(0)
                self.outcome = {'halt': 'INSTRUCTION', 'trap': None, 'stmt': None}
            except _End:
                self.outcome = {'halt': 'INSTRUCTION', 'trap': None, 'stmt': None}
            except _Return:
                raise Inconclusive('RETURN without GOSUB')
            except _Exit:
                raise Inconclusive('EXIT outside its construct')
            except _Resume:
                raise Inconclusive('RESUME outside a handler')
            except _Interrupt:
                self.outcome = {'halt': 'TRAP', 'trap': 'KEYBOARD_INTERRUPT', 'stmt': None}
            except QBError as e:
                self.outcome = {'halt': 'TRAP', 'trap': TRAP[e.kind], 'stmt': e.stmt}
        except RecursionError:
            raise Inconclusive('host recursion limit')
        return self.outcome
