"""The simulated world: peripherals, virtual clock, fault plan, tick scheduler.

Seams used (none needs a hook in /repo):
  * QvmMachine(module, impl=SimPeripherals)      - every device
  * cpu.tick = <wrapper>  (instance attribute)    - every instruction, also the
    ones the debugger issues through cpu.next()
  * cpu.signal_handler(SIGINT, None)              - the interrupt request
"""
import io
import os
import signal
import contextlib
import traceback

from .core import qb, load_module, H

# ---------------------------------------------------------------------------
# module information shared by all runs of one compiled module


class ModInfo:
    """Parsed module + own linear decode of the code section + (with -g) own
    reader of the statement records.  Built once per module bytes."""

    _cache = {}

    def __init__(self, b):
        q = qb()
        self.bytes = b
        sink = io.StringIO()
        with contextlib.redirect_stdout(sink):
            self.module = load_module(b)
            cpu = q['QvmCpu'](self.module)
        code = self.module.code
        self.code_len = len(code)
        self.instrs = {}      # addr -> (op, operands, size)
        a = 0
        self.decode_error = None
        while a < len(code):
            try:
                instr, ops, size = cpu.get_instruction_at(a)
            except Exception as e:   # truncated operand etc.
                self.decode_error = (a, repr(e))
                break
            if instr is None:
                self.decode_error = (a, 'invalid opcode')
                break
            self.instrs[a] = (instr.op, tuple(ops), size)
            a += size
        # entry: "call main" at 0
        self.entry = None
        if 0 in self.instrs and self.instrs[0][0] == 'call':
            self.entry = self.instrs[0][1][0]
        di = self.module.debug_info
        self.has_dbg = di is not None
        self.stmts = []
        self.stmt_starts = {}
        self.routines = []
        if di is not None:
            for s in di.stmts:
                self.stmts.append((s.start_offset, s.end_offset,
                                   s.source_start_line, s.source_start_col,
                                   s.source_start_offset, s.source_end_offset,
                                   type(s.node).__name__))
            clause_ends = {s[1] for s in self.stmts if s[6].endswith('CaseClause')}
            for s in self.stmts:
                # statement boundaries in the source sense: the clause
                # elements of a CASE line have records of their own but sit
                # inside one statement; a synthesised END SELECT record that
                # starts where the last clause element ends (empty CASE body)
                # starts in the middle of that CASE statement
                if s[1] > s[0] and not s[6].endswith('CaseClause') \
                        and not (s[0] in clause_ends and s[6].startswith('End')):
                    self.stmt_starts.setdefault(s[0], s)
            for name, r in di.routines.items():
                self.routines.append((r.start_offset, r.end_offset, name))
            self.source = di.source_code
        self._inner = {}

    @classmethod
    def get(cls, b):
        mi = cls._cache.get(b)
        if mi is None:
            if len(cls._cache) > 600:
                cls._cache.clear()
            mi = cls._cache[b] = cls(b)
        return mi

    def fresh_module(self):
        """A separately parsed module (the debugger mutates its debug info)."""
        sink = io.StringIO()
        with contextlib.redirect_stdout(sink):
            return load_module(self.bytes)

    def innermost(self, pc):
        """Own reader: innermost *non-empty* statement record containing pc."""
        if pc in self._inner:
            return self._inner[pc]
        best = None
        for s in self.stmts:
            if s[0] <= pc < s[1]:
                if best is None or (s[1] - s[0]) < (best[1] - best[0]):
                    best = s
        self._inner[pc] = best
        return best

    def stmt_at(self, pc):
        if pc == 0 and self.entry is not None:
            pc = self.entry
        return self.innermost(pc)

    def line_of(self, pc):
        s = self.innermost(pc)
        return None if s is None else s[2]


# ---------------------------------------------------------------------------
# device script and fault plan


def default_script():
    return {
        'input_lines': [],
        'inkey': [],
        'rnd': [0.25, 0.5, 0.75, 0.0, 0.125],
        'clock0': 3600.0,
        'deltas': [0.0, 0.25, 1.0],
        'peek': [0, 1, 255, 7],
    }


class Interrupt(BaseException):
    pass


# (device id, operation id) -> 'device.operation', the coordinates op-level
# faults are addressed in (independent of low-level call granularity)
IO_NAMES = {
    (2, 1): 'terminal.cls', (2, 2): 'terminal.print', (2, 3): 'terminal.color',
    (2, 4): 'terminal.view_print', (2, 5): 'terminal.set_mode', (2, 6): 'terminal.width',
    (2, 7): 'terminal.locate', (2, 8): 'terminal.input', (2, 9): 'terminal.inkey',
    (3, 1): 'pcspkr.beep', (3, 2): 'pcspkr.play', (3, 3): 'pcspkr.sound',
    (5, 1): 'time.get_time', (6, 1): 'rng.seed', (6, 2): 'rng.rnd',
    (7, 1): 'memory.poke', (7, 2): 'memory.peek', (7, 3): 'memory.set_segment',
    (7, 4): 'memory.set_default_segment', (7, 5): 'memory.bsave', (7, 6): 'memory.bload',
    (8, 1): 'data.read', (8, 2): 'data.restore', (9, 1): 'fs.kill',
}


class BudgetExceeded(BaseException):
    """Step budget exhausted: reported as a hang, never swallowed by the VM."""


class SimPeripherals:
    """Every impl.* method the devices call, scripted and fault-injecting.

    Each call gets the next global event sequence number, is appended to the
    history, advances the virtual clock by a scripted delta, consults the
    fault plan and returns the scripted value."""

    # methods the devices may call; anything else is AttributeError(obj=self)
    KNOWN = (
        'terminal_print', 'terminal_input', 'terminal_inkey', 'terminal_cls',
        'terminal_color', 'terminal_locate', 'terminal_set_mode',
        'terminal_width', 'terminal_view_print', 'terminal_set_mem',
        'pcspkr_beep', 'pcspkr_play', 'pcspkr_sound',
        'time_get_time', 'rng_seed', 'rng_get_next', 'rng_get_with_seed',
        'memory_set_segment', 'memory_set_default_segment', 'memory_peek',
        'memory_poke', 'memory_bsave', 'memory_bload', 'fs_kill',
    )

    def __init__(self, script, plan, sim, kind='sim'):
        self._script = script
        self._sim = sim
        self._kind = kind
        self._real = None
        if kind == 'dumb':
            # the repository's real dumb-terminal peripherals over simulated
            # stdio (builtins.input / sys.stdout are owned by the simulator)
            self._real = qb()['machine_mod'].DumbPeripheralsImpl()
        self.history = []
        self.origins = []         # per history entry: (tick, device id, op id)
        self.pending = None       # fault armed for the io instruction in progress
        self.ncalls = 0
        self.clock = float(script.get('clock0', 0.0))
        self.sim_seconds = 0.0
        self._deltas = script.get('deltas') or [0.0]
        self._n_input = 0
        self._n_inkey = 0
        self._n_rnd = 0
        self._n_peek = 0
        self.fired = {}
        self._by_call = {}
        self._by_input = {}
        for f in plan:
            k = f['kind']
            if k in ('F1', 'F2', 'F5b'):
                self._by_call.setdefault(f['at'], []).append(f)
            elif k == 'F4':
                self._by_input[f['at']] = f
        self._segment = None

    def _fire(self, kind):
        self.fired[kind] = self.fired.get(kind, 0) + 1
        self._sim.on_fault_fired(kind)

    def __getattr__(self, name):
        if name.startswith('_') or name not in SimPeripherals.KNOWN:
            raise AttributeError(name)
        nxt = self.ncalls + 1
        for f in self._by_call.get(nxt, ()):
            if f['kind'] == 'F2':
                # "operation not implemented": attribute lookup fails on impl
                self.ncalls = nxt
                self.history.append([name, '<not-implemented>'])
                self.origins.append(self._sim.cur_io)
                self._fire('F2')
                raise AttributeError(f'{name} not implemented', name=name,
                                     obj=self)

        def call(*args):
            return self._call(name, args)
        return call

    def _call(self, name, args):
        q = qb()
        self.ncalls += 1
        seq = self.ncalls
        self.history.append([name] + [_plain(a) for a in args])
        self.origins.append(self._sim.cur_io)
        d = self._deltas[(seq - 1) % len(self._deltas)]
        self.clock += d
        self.sim_seconds += abs(d)
        if d < 0 or d >= 3600:
            self._fire('F7')
        if self.pending is not None:
            f, self.pending = self.pending, None
            self._fire(f['kind'])
            if f['kind'] == 'F1op':
                raise q['DeviceError'](error_msg='injected failure')
            self._sim.deliver_interrupt()
        for f in self._by_call.get(seq, ()):
            if f['kind'] == 'F1':
                self._fire('F1')
                if f.get('code'):
                    from qvm.machine import Device
                    raise q['DeviceError'](error_msg='injected failure',
                                           error_code=Device.Error.BAD_ARG_VALUE)
                raise q['DeviceError'](error_msg='injected failure')
            if f['kind'] == 'F5b':
                self._fire('F5b')
                self._sim.deliver_interrupt()
        if self._real is not None and name not in ('time_get_time',):
            return self._call_real(name, args)
        return getattr(self, '_do_' + name, self._do_nothing)(*args)

    def _call_real(self, name, args):
        import builtins
        mm = qb()['machine_mod']
        saved = builtins.input
        saved_fs = (mm.os, mm.__dict__.get('open'))
        builtins.input = self._stdin_readline
        # the real peripherals must never touch the real file system
        mm.os = _FakeOs(self)
        mm.open = self._fake_open
        try:
            return getattr(self._real, name)(*args)
        except AttributeError as e:
            if getattr(e, 'obj', None) is self._real:
                # the device layer recognises "operation not implemented" by
                # e.obj being the peripherals object it was given: that is
                # this proxy, not the wrapped real object
                raise AttributeError(str(e), name=getattr(e, 'name', None), obj=self)
            raise
        finally:
            builtins.input = saved
            mm.os = saved_fs[0]
            if saved_fs[1] is None:
                mm.__dict__.pop('open', None)
            else:
                mm.open = saved_fs[1]

    def _fake_open(self, path, mode='r', *a, **k):
        """In-memory file system of the simulated disk."""
        import io as _io
        files = self._script.setdefault('files', {})
        self.history.append(['<fs-open>', str(path), mode])
        self.origins.append(self._sim.cur_io)
        if 'r' in mode:
            if path not in files:
                raise FileNotFoundError(2, 'No such file or directory', path)
            data = files[path]
            return _io.BytesIO(data) if 'b' in mode else _io.StringIO(data.decode('latin-1'))
        buf = _io.BytesIO() if 'b' in mode else _io.StringIO()
        return buf

    def _stdin_readline(self, prompt=''):
        """What input() does on the simulated stdin."""
        self._n_input += 1
        f = self._by_input.get(self._n_input)
        lines = self._script.get('input_lines') or []
        if f is not None:
            self._fire('F4')
            raise EOFError
        if self._n_input > len(lines):
            raise EOFError
        return lines[self._n_input - 1]

    # -- scripted behaviours -------------------------------------------------

    def _do_nothing(self, *args):
        return None

    def _do_terminal_input(self, same_line):
        q = qb()
        self._n_input += 1
        f = self._by_input.get(self._n_input)
        if f is not None:
            self._fire('F4')
            if f.get('mode') == 'eof':
                raise EOFError
            return None
        lines = self._script.get('input_lines') or []
        if self._n_input > len(lines):
            # the scripted operator walked away: a defined device failure
            raise q['DeviceError'](error_msg='end of scripted input')
        return lines[self._n_input - 1]

    def _do_terminal_inkey(self):
        keys = self._script.get('inkey') or []
        self._n_inkey += 1
        if self._n_inkey > len(keys):
            return ''
        return keys[self._n_inkey - 1]

    def _do_time_get_time(self):
        return self.clock % 86400.0

    def _do_rng_get_next(self):
        r = self._script.get('rnd') or [0.5]
        v = r[self._n_rnd % len(r)]
        self._n_rnd += 1
        return v

    def _do_rng_get_with_seed(self, seed):
        return (H('rnd-seed', repr(seed)) % 4096) / 4096.0

    def _do_memory_peek(self, offset):
        p = self._script.get('peek') or [0]
        v = p[self._n_peek % len(p)]
        self._n_peek += 1
        return v


class _FakeOs:
    """Stand-in for the `os` module inside qvm.machine (only unlink is used)."""

    def __init__(self, impl):
        self._impl = impl
        import os as _os
        self.path = _os.path

    def unlink(self, path):
        files = self._impl._script.setdefault('files', {})
        self._impl.history.append(['<fs-unlink>', str(path)])
        self._impl.origins.append(self._impl._sim.cur_io)
        if path not in files:
            raise FileNotFoundError(2, 'No such file or directory', path)
        del files[path]


def _plain(v):
    if isinstance(v, (int, float, str, bool)) or v is None:
        return v
    return repr(v)


# ---------------------------------------------------------------------------
# the run


def exc_where(e):
    tb = traceback.extract_tb(e.__traceback__)
    for fr in reversed(tb):
        fn = fr.filename
        if '/qvm/' in fn or '/qbee/' in fn:
            return f'{os.path.basename(fn)}:{fr.name}'
    if tb:
        fr = tb[-1]
        return f'{os.path.basename(fr.filename)}:{fr.name}'
    return '?'


class Sim:
    """One simulated machine: real QvmMachine + devices, simulated peripherals,
    scheduler-owned tick."""

    def __init__(self, mi, script=None, plan=(), budget=400000,
                 signal_mode='call', fresh_module=False, record_io=False,
                 impl_kind='sim'):
        q = qb()
        self.mi = mi
        self.plan = list(plan)
        self.script = script or default_script()
        self.budget = budget
        self.signal_mode = signal_mode
        self.ticks = 0
        self.fired = {}
        self.pre_hooks = []
        self.post_hooks = []
        self.record_io = record_io
        self.io_events = []       # (tick, dev, op, typed print args)
        self.stdout = io.StringIO()
        self.irq_ticks = {}
        for f in self.plan:
            if f['kind'] == 'F5a':
                self.irq_ticks[f['tick']] = f
        # F5p: the request arrives while instruction tick-1 executes, i.e. it is
        # pending when that instruction completes (in a free run the same as
        # F5a at `tick`; under the debugger the command may return to the
        # prompt, or re-enter run(), with the request still pending)
        self.irq_post = {f['tick']: f for f in self.plan if f['kind'] == 'F5p'}
        self.irq_delivered_at = None
        self.cur_io = None
        self.io_counts = {}
        self.op_faults = {}
        for f in self.plan:
            if f['kind'] in ('F1op', 'F5op'):
                self.op_faults[(f['op'], f['nth'])] = f
        self.impl = SimPeripherals(self.script, self.plan, self, kind=impl_kind)
        self.module = mi.fresh_module() if fresh_module else mi.module
        with contextlib.redirect_stdout(self.stdout):
            self.machine = q['QvmMachine'](self.module, impl=self.impl)
        self.cpu = self.machine.cpu
        self._orig_tick = self.cpu.tick
        self.cpu.tick = self._tick
        self.exc = None
        self.hang = False
        self.resource = None

    # -- scheduler -----------------------------------------------------------

    def on_fault_fired(self, kind):
        self.fired[kind] = self.fired.get(kind, 0) + 1

    def deliver_interrupt(self):
        self.irq_delivered_at = self.ticks
        if self.signal_mode == 'raise':
            # goes through the real signal registration of QvmCpu.__init__
            if signal.getsignal(signal.SIGINT) == self.cpu.signal_handler:
                signal.raise_signal(signal.SIGINT)
                return
        self.cpu.signal_handler(signal.SIGINT, None)

    def _tick(self):
        n = self.ticks
        if n >= self.budget:
            raise BudgetExceeded()
        if n in self.irq_ticks:
            self.on_fault_fired('F5a')
            for h in self.pre_hooks:
                h(self, n, True)
            self.deliver_interrupt()
        else:
            for h in self.pre_hooks:
                h(self, n, False)
        if self.record_io or self.op_faults:
            self._note_io(n)
        self._orig_tick()
        self.ticks = n + 1
        self.cur_io = None
        self.impl.pending = None
        if (n + 1) in self.irq_post and not self.cpu.halted:
            self.on_fault_fired('F5p')
            self.deliver_interrupt()
        st = self.cpu.stack
        if st:
            v = st[-1].value
            if type(v) is str and len(v) > 100000:
                # unbounded string growth (QBASIC caps strings at 32767
                # characters, qbee does not): stop the run as inconclusive
                # instead of exhausting the host's memory
                self.resource = 'string-growth'
                raise BudgetExceeded()
        for h in self.post_hooks:
            h(self, n)

    def _note_io(self, n):
        cpu = self.cpu
        if cpu.received_keyboard_interrupt:
            return
        ins = self.mi.instrs.get(cpu.pc)
        if ins is None or ins[0] != 'io':
            return
        dev, op = ins[1]
        self.cur_io = (n, dev, op)
        if self.op_faults:
            key = IO_NAMES.get((dev, op))
            k = self.io_counts.get(key, 0) + 1
            self.io_counts[key] = k
            f = self.op_faults.get((key, k))
            if f is not None:
                self.impl.pending = f
        if not self.record_io:
            return
        ev = [n, cpu.pc, dev, op]
        if dev == 2 and op == 2:
            # typed PRINT operands as they sit on the operand stack
            st = cpu.stack
            try:
                nargs = st[-1].value
                ev.append([(c.type.name, _plain(c.value))
                           for c in st[-1 - nargs:-1]])
            except Exception:
                ev.append('<bad print frame>')
        self.io_events.append(ev)

    # -- running -------------------------------------------------------------

    def guarded(self, fn):
        """Run fn() under stdout capture; host exceptions and budget overruns
        are recorded, never propagated."""
        try:
            with contextlib.redirect_stdout(self.stdout):
                return fn()
        except BudgetExceeded:
            self.hang = True
        except RecursionError as e:
            self.exc = {'type': 'RecursionError', 'where': exc_where(e),
                        'text': ''}
        except BaseException as e:   # incl. KeyboardInterrupt, SystemExit
            self.exc = {'type': type(e).__name__, 'where': exc_where(e),
                        'text': str(e)[:160]}
        return None

    def run(self):
        self.guarded(self.machine.run)
        return self.outcome()

    def outcome(self):
        cpu = self.cpu
        q = qb()
        halt = cpu.halt_reason.name
        trap = None
        line = None
        if cpu.halt_reason == q['HaltReason'].TRAP and cpu.last_trap is not None:
            trap = cpu.last_trap.name
            if self.mi.has_dbg:
                line = self.mi.line_of(cpu.trapped_addr)
        return {
            'halt': halt, 'trap': trap, 'line': line,
            'exc': self.exc, 'hang': self.hang, 'ticks': self.ticks,
            'stack': len(cpu.stack),
        }

    @property
    def history(self):
        return self.impl.history


# ---------------------------------------------------------------------------
# state digest (for "nothing changed" checks)


def state_digest(sim, halt_fields=True):
    """Hashable snapshot of everything a program can observe later."""
    q = qb()
    CT = q['CellType']
    cpu = sim.cpu
    seen = {}
    out = []

    def seg_id(seg):
        k = id(seg)
        if k not in seen:
            seen[k] = len(seen)
            out.append(('seg', seen[k], type(seg).__name__, cells(seg)))
        return seen[k]

    def cell(c):
        if c is None:
            return None
        if c.type == CT.REFERENCE:
            r = c.value
            return ('R', seg_id(r.segment), r.index)
        return (c.type.name, repr(c.value))

    def cells(seg):
        # register id first to cut cycles
        return tuple(cell(c) for c in seg.cells)

    g = cpu.globals_segment
    seen[id(g)] = 0
    out.append(('globals', cells(g)))
    fr = cpu.cur_frame
    depth = 0
    while fr is not None:
        if id(fr) not in seen:
            seen[id(fr)] = len(seen)
        out.append(('frame', depth, fr.code_start, fr.ret_addr, cells(fr)))
        fr = fr.prev_frame
        depth += 1
    out.append(('stack', tuple(cell(c) for c in cpu.stack)))
    dd = cpu.devices.get('data')
    rd = cpu.devices.get('rng')
    out.append(('regs', cpu.pc,
                (cpu.halted, cpu.halt_reason.name) if halt_fields else None,
                repr(cpu.trap_target), cpu.error_handler_active,
                getattr(dd, 'data_part', None), getattr(dd, 'data_idx', None),
                repr(getattr(rd, 'last_rnd', None)),
                len(sim.impl.history)))
    return tuple(out)
