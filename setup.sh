#!/bin/sh
# Offline set-up: build the (optional, performance-only) arena shim and
# byte-compile the framework.  Nothing is downloaded.
cd /verif || exit 1
if command -v gcc >/dev/null 2>&1; then
  gcc -O2 -shared -fPIC -o simqb/native/libarena.so simqb/native/arena.c 2>/dev/null || \
    echo "arena shim not built (checks still run, slower)"
fi
/venv/bin/python -m compileall -q simqb >/dev/null 2>&1
/venv/bin/python -c "import sys; sys.path.insert(0,'/verif'); import simqb.core as c; print('simqb ready; arena shim:', c.ARENA_SHIM)"
