on error goto h
dim a%(3)
n% = 5
print "a"
a%(n%) = 1
print "b"
call s(n%)
print "c"
end
h:
print "err"; err; n%
n% = 2
resume
sub s(k%)
dim b%(3)
print "s1"
b%(k% + 9) = 1
print "s2"
end sub
