# prototype C12 step model over repo corpus
from p import *
from corpus import cases
from t8 import TImpl
from qvm.dbg import Cmd

def my_nonempty_stmt(di, pc, code0_target):
    # own reader: innermost (smallest) record containing pc; if zero-length, n/a
    if pc==0 and code0_target is not None: pc=code0_target
    best=None
    for s in di.stmts:
        if s.start_offset<=pc<s.end_offset:
            if best is None or (s.end_offset-s.start_offset)<(best.end_offset-best.start_offset):
                best=s
    return best

def build(case,opt):
    c = Compiler(codegen_name='qvm', optimization_level=opt, debug_info=True)
    m=QModule.parse(bytes(c.compile(case.source_code)))
    impl=TImpl(case); mach=QvmMachine(m, impl=impl)
    return m,impl,mach

def run_case(case,opt):
    # free run trace
    m,impl,mach=build(case,opt); cpu=mach.cpu
    instr,ops,_=cpu.get_instruction_at(0)
    tgt=ops[0] if instr.op=='call' else None
    trace=[]
    orig=cpu.tick
    def tick():
        orig()
        s=my_nonempty_stmt(m.debug_info, cpu.pc, tgt) if not cpu.halted else None
        trace.append(None if s is None else (s.start_offset,s.end_offset))
    cpu.tick=tick
    o=io.StringIO()
    with contextlib.redirect_stdout(o): cpu.run()
    free_log=list(impl.log); free_halt=(cpu.halt_reason,cpu.last_trap)
    # expected stops: start stmt = stmt at first position reached by start_debugging
    # stepping run
    m2,impl2,mach2=build(case,opt); cpu2=mach2.cpu
    stops=[]
    with contextlib.redirect_stdout(o):
        dbg=Cmd(mach2,m2); dbg.auto_status='off'
        def cur():
            s=my_nonempty_stmt(m2.debug_info,cpu2.pc,tgt)
            return None if s is None else (s.start_offset,s.end_offset)
        stops.append(cur())
        n=0
        while not cpu2.halted and n<5000:
            dbg.onecmd('step'); n+=1
            stops.append(None if cpu2.halted else cur())
    return trace, stops, free_log==impl2.log, free_halt==(cpu2.halt_reason,cpu2.last_trap), n

def model(trace, first):
    # collapse: starting at 'first', stops occur at each tick where stmt not None and != current
    out=[first]; cur=first
    for s in trace:
        if s is not None and s!=cur:
            out.append(s); cur=s
    return out

bad=0; tot=0
for case in cases():
    for opt in (0,2):
        try:
            trace,stops,same_log,same_halt,n=run_case(case,opt)
        except Exception as e:
            print('EXC',case.filename.split('/')[-1],case.idx,opt,repr(e)[:120]); bad+=1; continue
        tot+=1
        exp=model(trace, stops[0])
        got=[s for s in stops if s is not None]
        if exp!=got or not same_log or not same_halt:
            bad+=1
            print(case.filename.split('/')[-1],case.idx,'O%d'%opt,'log',same_log,'halt',same_halt,'len',len(exp),len(got))
print('total',tot,'bad',bad)
