defint a-z
type inner
  u as integer
  v as string
end type
type outer
  a as long
  i as inner
  b as double
end type
declare sub bump (n, arr() as integer)
declare function fact& (n)
const lim = 3
const big& = 100000
dim shared total as long
dim grid(1 to 2, -1 to 1) as integer
dim recs(2) as outer
dim o as outer
n = 2
dim dyn(n + 1) as single
o.i.u = 7 : o.i.v = "q" : o.a = big& : o.b = 1.5
recs(1).i.u = 9
grid(2, -1) = 5
dyn(3) = 2.5
bump n, grid()
bump (n), grid()
print n; o.a; o.i.u; recs(1).a; total; grid(1, 0)
print fact&(5); fact&(lim)
for k = 3 to 1 step -1
  select case k
  case 1, 2
    print "lo"; k
  case is > 2
    print "hi"
  case else
    print "?"
  end select
next k
do
  j = j + 1
  if j = 2 then exit do
loop until j > 5
while j < 4: j = j + 1: wend
gosub sr
if j > 3 then print "big" else print "small"
read a$, q!, w
print a$; q!; w
restore more
read w : print w
end
sr:
  print "in sr"; j
  return
data "x,y", 1.5, 3
more: data 42
sub bump (n, arr() as integer) static
  cnt = cnt + 1
  n = n + 10
  arr(1, 0) = arr(1, 0) + 1
  total = total + n
end sub
function fact& (n)
  if n <= 1 then
    fact& = 1
  else
    fact& = n * fact&(n - 1)
  end if
end function
