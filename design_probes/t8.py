# prototype C03 monitor invariant 2 and 4 + C11 structure over repo corpus, fault-free
from p import *
from corpus import cases
from qvm.instrs import op_code_to_instr
import collections

class TImpl:
    def __init__(self, c): self.c=c; self.i=self.r=self.t=0; self.log=[]
    def __getattr__(self,a):
        if a.startswith('_'): raise AttributeError(a)
        def f(*args):
            self.log.append((a,)+args)
            if a=='terminal_inkey':
                self.i+=1; return self.c.inkey_list[self.i-1] if self.i<=len(self.c.inkey_list) else ''
            if a=='rng_get_next': self.r+=1; return self.c.rnd_list[self.r-1]
            if a=='rng_get_with_seed': return abs(args[0]/100)
            if a=='time_get_time': self.t+=1; return self.c.timer_list[self.t-1]
        return f

def decode(cpu, code):
    starts={}; a=0
    while a<len(code):
        instr, ops, size = cpu.get_instruction_at(a)
        starts[a]=(instr.op, ops, size); a+=size
    return starts

def check(case, opt):
    c = Compiler(codegen_name='qvm', optimization_level=opt, debug_info=True)
    code=c.compile(case.source_code); m=QModule.parse(bytes(code))
    impl=TImpl(case); mach=QvmMachine(m, impl=impl); cpu=mach.cpu
    starts=decode(cpu, m.code)
    di=m.debug_info
    stmt_starts=collections.defaultdict(list)
    for s in di.stmts:
        if s.end_offset>s.start_offset: stmt_starts[s.start_offset].append(s)
    problems=[]
    # structural
    for s in di.stmts:
        if s.start_offset not in starts and s.start_offset!=len(m.code): problems.append(('stmt-start-not-boundary',s.start_offset))
        if s.end_offset not in starts and s.end_offset!=len(m.code): problems.append(('stmt-end-not-boundary',s.end_offset))
    # frames
    frame_base={}  # id(frame)->(base depth, gosubs)
    orig=cpu.tick
    state={'n':0}
    def tick():
        pc=cpu.pc
        if pc not in starts: problems.append(('pc-not-boundary',pc)); 
        fr=cpu.cur_frame
        if fr is not None and pc in stmt_starts and id(fr) in frame_base and starts[pc][0]!='frame':
            base,g=frame_base[id(fr)]
            if len(cpu.stack)!=base+g[0]:
                problems.append(('depth',pc,len(cpu.stack),base,g[0], stmt_starts[pc][0].source_start_line))
        op,ops,size=starts.get(pc,(None,None,None))
        orig()
        state['n']+=1
        if op=='frame':
            frame_base[id(cpu.cur_frame)]=(len(cpu.stack),[0])
        elif op=='call':
            tgt=ops[0]
            if starts.get(tgt,('',))[0]!='frame' and cpu.cur_frame is not None and id(cpu.cur_frame) in frame_base:
                frame_base[id(cpu.cur_frame)][1][0]+=1
        elif op=='ijmp':
            if cpu.cur_frame is not None and id(cpu.cur_frame) in frame_base: frame_base[id(cpu.cur_frame)][1][0]-=1
        elif op=='pop' and starts.get(pc+size,('',))[0]=='jmp':
            # RETURN label
            if cpu.cur_frame is not None and id(cpu.cur_frame) in frame_base: frame_base[id(cpu.cur_frame)][1][0]-=1
    cpu.tick=tick
    out=io.StringIO()
    with contextlib.redirect_stdout(out):
        cpu.run()
    return problems, state['n'], cpu.halt_reason

tot=0; bad=0
for case in cases():
    for opt in (0,1,2):
        try:
            pr,n,hr=check(case,opt)
        except Exception as e:
            print('EXC', case.filename, case.idx, opt, repr(e)[:100]); continue
        tot+=1
        if pr:
            bad+=1
            print(case.filename.split('/')[-1], case.idx, 'O%d'%opt, pr[:3])
print('total',tot,'bad',bad)
