print "a"
x% = 0
y% = 1 \ x%
print "b"
print "c"
