from p import *
from qvm.dbg import Cmd
src=open('h.bas').read()
c = Compiler(codegen_name='qvm', optimization_level=0, debug_info=True)
m=QModule.parse(bytes(c.compile(src)))
impl=Impl(); mach=QvmMachine(m, impl=impl)
cpu=mach.cpu
ticks=[0]
orig=cpu.tick
def wrapped():
    ticks[0]+=1
    return orig()
cpu.tick=wrapped
o=io.StringIO()
with contextlib.redirect_stdout(o):
    dbg=Cmd(mach,m)
    for cmd in sys.argv[1:]:
        dbg.onecmd(cmd)
        print('##',cmd, cpu.pc, cpu.halted, cpu.halt_reason, len(impl.log), ticks[0])
print(o.getvalue()[-900:])
print(impl.log)
