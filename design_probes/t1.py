from p import *
src=open('c.bas').read()
for inputs in (['1,2'], ['x,5','1,2'], ['5,x','1,2'], ['1','1,2,3','1,2'], [None]):
    r=run(src, inputs=inputs)
    print(inputs, r['halt'], r['trap'], r['stack'], r['exc']); print('   ', r['log']); print('   ', r['out'].strip())
