on error goto h
x% = 1
y% = 0
print "a"
z% = 5 + (x% \ y%)
print "b"; z%
z% = 7 \ y%
print "c"
end
h:
print "err"; err
resume next
