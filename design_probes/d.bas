defint a-z
dim arr(1 to 3)
x = 1
for i = 1 to 2
  x = x + i : arr(i) = x * 2
  call s(x)
next
print "done"; f(3)
end
sub s(v)
  static n
  n = n + 1
  print "s"; v; n
end sub
function f(q)
  f = q * 2
end function
