from p import *
src=open('d.bas').read()
base=run(src)
print('base ticks', base['ticks'], base['halt'])
bad=[]
for k in range(base['ticks']+1):
    r=run(src, irq_at=k)
    ok = r['halt']==HaltReason.TRAP and str(r['trap'])=='TrapCode.KEYBOARD_INTERRUPT' and r['ticks']==k+1 and r['exc'] is None
    if not ok: bad.append((k,r['halt'],r['trap'],r['ticks'],r['exc']))
print('bad', bad[:10], len(bad))
# device fault at each call, no handler
for k in range(1, len(base['log'])+1):
    r=run(src, fail_at=k)
    print(k, r['halt'], r['trap'], r['exc'], r['out'].strip())
