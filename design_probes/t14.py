from p import *
def t(src):
    t0=time.time()
    c=Compiler(codegen_name='qvm',optimization_level=2,debug_info=True); bytes(c.compile(src))
    return time.time()-t0
e='1'
for d in range(1,8):
    e=f'({e} + x%) * 2'
    print(d, round(t(f'y& = {e}\n'),3))
src=''.join(f'a{i}% = a{i}% + {i}\nprint a{i}%; "m{i}"\n' for i in range(40))
print('80 simple stmts', round(t(src),3))
src='for i%=1 to 3\n if i%=2 then\n  select case i%\n  case 1\n   print 1\n  case else\n   print 2\n  end select\n else\n  do while j%<2\n   j%=j%+1\n  loop\n end if\nnext\n'
print('nested blocks', round(t(src),3))
print('f(g(h(1)))', round(t('print f(f(f(1)))\nfunction f(x)\nf=x+1\nend function\n'),3))
print('arr((a(b(1))))', round(t('dim a%(5), b%(5)\nprint a%(b%(a%(1)))\n'),3))
