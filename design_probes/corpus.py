import sys, glob
sys.path.insert(0,'/repo'); sys.path.insert(0,'/repo/tests')
from qb_test_parser import parse_qb_test_file
def cases(kind='success'):
    out=[]
    for f in sorted(glob.glob('/repo/tests/test_cases/*.test')):
        for c in parse_qb_test_file(f).cases:
            if c.expected_result==kind and not c.no_run:
                out.append(c)
    return out
if __name__=='__main__':
    print(len(cases()), len(cases('trap')))
