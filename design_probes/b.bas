on error goto h
x% = 32767
print "a"
z% = 5 + (x% + x%)
print "b"; z%
z% = x% * 2
print "c"
call s
print "d"
end
h:
print "err"; err
resume next
sub s
print "in s"
end sub
