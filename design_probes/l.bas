type pt
  x as integer
  y as integer
end type
dim o as pt
o.y = 4
call s(o)
print o.y
end
sub s(r as pt)
  r.y = r.y + 1
end sub
