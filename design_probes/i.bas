type pt
  x as integer
  y as long
end type
dim shared g as long
dim m%(1 to 2)
dim p as pt
const k = 7
g = 11
m%(2) = 5
p.y = 9
call s(m%(2), p.y)
end
sub s(a%, b&)
  dim lc%(2 to 4)
  dim q as pt
  static st%
  const c2 = 3
  lc%(3) = 42
  q.x = 8
  st% = 6
  w$ = "hi"
  print "here"
end sub
