gosub r
print "back"
end
r:
input "p"; a%, b%
print a%; b%
return
