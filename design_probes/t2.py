from p import *
from qvm.dbg import Cmd
src=open('i.bas').read()
c = Compiler(codegen_name='qvm', optimization_level=int(sys.argv[1]), debug_info=True)
code=c.compile(src)
m=QModule.parse(bytes(code))
impl=Impl()
mach=QvmMachine(m, impl=impl)
out=io.StringIO()
with contextlib.redirect_stdout(out):
    dbg=Cmd(mach,m)
def do(cmd):
    o=io.StringIO()
    with contextlib.redirect_stdout(o):
        dbg.onecmd(cmd)
    st=dbg.find_nonempty_stmt(mach.cpu.pc)
    print(f'{cmd:12} pc={mach.cpu.pc:04x} halted={mach.cpu.halted} {mach.cpu.halt_reason.name} line={st.source_start_line if st else None} io={len(impl.log)} | {o.getvalue().strip()[:100]!r}')
for cmd in sys.argv[2:]:
    do(cmd)
