from p import *
import random, itertools, collections
from t11 import one
class C: pass
def mk(src):
    c=C(); c.source_code=src; c.inkey_list=[]; c.rnd_list=[]; c.timer_list=[]; return c
vals={'%':['0','1','-1','2','7','-7','32767','-32768'], '&':['0&','1&','-7&','100000','2147483647','-2147483647'], '!':['0.5','2.5','-2.5','1.5','3!','1e10'], '#':['0.5#','2.5#','-7#','1d100']}
ops=['+','-','*','/','\\','mod','and','or','xor','eqv','imp','=','<>','<','>','<=','>=','^']
rng=random.Random(1)
cnt=collections.Counter(); ex={}
N=int(sys.argv[1])
for i in range(N):
    ta,tb=rng.choice('%&!#'),rng.choice('%&!#')
    a,b=rng.choice(vals[ta]),rng.choice(vals[tb]); op=rng.choice(ops)
    src=f'print {a} {op} {b}\n'
    r0=one(mk(src),0,False); r2=one(mk(src),2,False); r1=one(mk(src),1,False)
    if not (r0==r1==r2):
        key=(op,ta,tb, r0[0]=='compile-exc', r1[0]=='compile-exc', r2[0]=='compile-exc')
        cnt[key]+=1; ex.setdefault(key,(src.strip(),str(r0)[:90],str(r1)[:90],str(r2)[:90]))
print(sum(cnt.values()),'of',N,'diverge;',len(cnt),'classes')
for k,v in list(ex.items())[:25]: print(k,v)
