on error resume next
x% = 3
print "a"; x%
print "b"; 10 + x%
y% = x% + rnd * 2
print "c"; y%
sound 100, 2
print "d"
