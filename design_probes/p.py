import sys, io, contextlib, time
sys.path.insert(0, '/repo')
from qbee.compiler import Compiler
from qbee import qvm_codegen
from qvm.module import QModule
from qvm.machine import QvmMachine
from qvm.cpu import HaltReason
from qvm.exceptions import DeviceError

class Impl:
    def __init__(self, inputs=(), fail_at=None):
        self.log=[]; self.inputs=list(inputs); self.n=0; self.fail_at=fail_at
    def __getattr__(self, a):
        if a.startswith('_'): raise AttributeError(a)
        def f(*args):
            self.n+=1
            self.log.append((a,)+args)
            if self.fail_at is not None and self.n==self.fail_at:
                raise DeviceError(error_msg='injected')
            if a=='terminal_input':
                return self.inputs.pop(0)
            if a=='time_get_time': return 1.5
            if a=='rng_get_next': return 0.25
            if a=='terminal_inkey': return ''
        return f

def run(src, opt=0, dbg=True, inputs=(), fail_at=None, maxticks=100000, irq_at=None):
    c = Compiler(codegen_name='qvm', optimization_level=opt, debug_info=dbg)
    code = c.compile(src)
    m = QModule.parse(bytes(code))
    impl = Impl(inputs, fail_at)
    mach = QvmMachine(m, impl=impl)
    cpu = mach.cpu
    out = io.StringIO()
    n=0
    exc=None
    with contextlib.redirect_stdout(out):
        try:
            while not cpu.halted and cpu.pc < len(m.code) and n<maxticks:
                if irq_at is not None and n==irq_at: cpu.signal_handler(2,None)
                cpu.tick(); n+=1
        except Exception as e:
            exc=repr(e)
    return dict(log=impl.log, halt=cpu.halt_reason, trap=cpu.last_trap, ticks=n, stack=len(cpu.stack), out=out.getvalue(), exc=exc)

if __name__=='__main__':
    src=open(sys.argv[1]).read()
    r=run(src, opt=int(sys.argv[2]) if len(sys.argv)>2 else 0)
    for k,v in r.items(): print(k, v)
