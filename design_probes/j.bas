a% = -7 : b% = 2 : c% = 7 : d% = -2
print a% \ b%; a% mod b%; c% \ d%; c% mod d%
print cint(2.5); cint(3.5); cint(-2.5); int(-2.5); clng(2.5)
x% = 2.5 : y% = 3.5 : z% = -0.5
print x%; y%; z%
print "a" < "b"; "abc" = "abc"; "b" > "abc"
print not 5; 5 and 3; 2.5 and 3; 7 xor 2; 1 eqv 1; 1 imp 0
s! = 1 / 4 : print s!; 10 / 4; 1 / 3
print mid$("hello", 2, 3); left$("hello", 2); right$("hello", 9); instr("hello", "l"); instr(4, "hello", "l")
print str$(5); len(str$(-5)); val("12abc"); val("  3.5"); asc("A"); chr$(66)
print 2 ^ 3; 2 ^ 0.5
print 1; -1; "x"; 2,
print 3
print 100000 * 3; 30000 + 2767
l& = 70000 : print l& \ 7; l& mod 9; -l& \ 7
print abs(-3.5)
