from p import *
src=open('e.bas').read()
base=run(src, opt=int(sys.argv[1]))
print(base['log'], base['halt'], base['stack'])
for k in range(1, len(base['log'])+1):
    r=run(src, fail_at=k, opt=int(sys.argv[1]))
    print(k, r['halt'].name, r['trap'], r['exc'], 'stack', r['stack'], [x[1] if x[0]=='terminal_print' else x[0] for x in r['log']], r['out'].strip()[:80])
