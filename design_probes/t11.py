from p import *
from corpus import cases
from t8 import TImpl
import itertools
def one(case,opt,dbg):
    try:
        c = Compiler(codegen_name='qvm', optimization_level=opt, debug_info=dbg)
        b=bytes(c.compile(case.source_code))
    except Exception as e:
        return ('compile-exc', type(e).__name__, getattr(e,'code',None))
    m=QModule.parse(b)
    impl=TImpl(case); mach=QvmMachine(m, impl=impl); cpu=mach.cpu
    o=io.StringIO(); exc=None
    with contextlib.redirect_stdout(o):
        try: cpu.run()
        except Exception as e: exc=type(e).__name__
    return (tuple(impl.log), cpu.halt_reason.name, cpu.last_trap, exc)
bad=0;tot=0
for case in cases()+cases('trap'):
    res={}
    for opt,dbg in itertools.product((0,1,2,3),(False,True)):
        res[(opt,dbg)]=one(case,opt,dbg)
    tot+=1
    ref=res[(0,False)]
    diff=[k for k,v in res.items() if v!=ref]
    if diff:
        bad+=1
        print(case.filename.split('/')[-1],case.idx,diff[:4]); print('   ref',str(ref)[:150]); print('   got',str(res[diff[0]])[:150])
print('total',tot,'bad',bad)
