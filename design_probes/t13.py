import sys, hashlib, json, struct
sys.path.insert(0,'/repo'); sys.path.insert(0,'/tmp/probe')
from corpus import cases
from qbee.compiler import Compiler
from qbee import qvm_codegen
def sections(b):
    out={}; i=0
    while i<len(b):
        t=b[i]; n,=struct.unpack('>I',b[i+1:i+5]); out[t]=b[i+5:i+5+n]; i+=5+n
    return out
res={}
for c in cases():
    for opt in (0,2):
        for dbg in (False,True):
            comp=Compiler(codegen_name='qvm',optimization_level=opt,debug_info=dbg)
            code=comp.compile(c.source_code)
            s=sections(bytes(code))
            h=hashlib.sha256(b''.join(s[k] for k in (1,2,3,4))+str(code).encode()).hexdigest()[:16]
            res[f'{c.filename.split("/")[-1]}:{c.idx}:{opt}:{dbg}']=h
print(hashlib.sha256(json.dumps(res,sort_keys=True).encode()).hexdigest())
