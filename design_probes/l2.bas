dim g(1 to 2, -1 to 1) as integer
g(2,-1) = 5
call s(g(), 3)
print g(2,-1); g(1,0)
end
sub s(a() as integer, k as integer)
  a(1,0) = a(2,-1) + k
end sub
